//! rsx: syn front end for the RS engine.
//!
//!   rsx parse  <file.rs>                          -> JSON AST of the file
//!   rsx expand <file.rs> <macro_name> k=v ...     -> JSON AST of the (single-arm) macro_rules body
//!                                                    with $k replaced by v and $crate by crate
//!
//! Nothing is rewritten besides that substitution.  Constructs the converter does not know
//! are emitted as {"k":"unsupported","text":...}; the executor stops (exit 2) if it reaches one.

use proc_macro2::{Delimiter, Group, Ident, Span, TokenStream, TokenTree};
use quote::ToTokens;
use serde_json::{json, Value};
use std::collections::HashMap;
use std::str::FromStr;
use syn::spanned::Spanned;

fn ln(s: Span) -> usize {
    s.start().line
}

fn ts<T: ToTokens>(t: &T) -> String {
    t.to_token_stream().to_string()
}

fn unsupported<T: ToTokens + Spanned>(t: &T) -> Value {
    json!({"k": "unsupported", "text": ts(t), "ln": ln(t.span())})
}

fn path_segs(p: &syn::Path) -> Vec<String> {
    p.segments.iter().map(|s| s.ident.to_string()).collect()
}

fn conv_pat(p: &syn::Pat) -> Value {
    use syn::Pat::*;
    match p {
        Ident(i) => json!({"k":"pident","name":i.ident.to_string(),"mut":i.mutability.is_some(),
                           "ref":i.by_ref.is_some()}),
        Wild(_) => json!({"k":"pwild"}),
        Lit(l) => json!({"k":"plit","lit":conv_lit(&l.lit)}),
        Tuple(t) => json!({"k":"ptuple","elems":t.elems.iter().map(conv_pat).collect::<Vec<_>>()}),
        TupleStruct(t) => json!({"k":"ptuplestruct","path":path_segs(&t.path),
                                 "elems":t.elems.iter().map(conv_pat).collect::<Vec<_>>()}),
        Reference(r) => json!({"k":"pref","pat":conv_pat(&r.pat)}),
        Path(p) => json!({"k":"ppath","path":path_segs(&p.path)}),
        Type(t) => {
            let mut v = conv_pat(&t.pat);
            v["ty"] = json!(ts(&*t.ty));
            v
        }
        Paren(p) => conv_pat(&p.pat),
        other => unsupported(other),
    }
}

fn conv_lit(l: &syn::Lit) -> Value {
    match l {
        syn::Lit::Int(i) => json!({"k":"lit","t":"int","v":i.base10_digits(),"suffix":i.suffix()}),
        syn::Lit::Float(f) => json!({"k":"lit","t":"float","v":f.base10_digits(),"suffix":f.suffix()}),
        syn::Lit::Bool(b) => json!({"k":"lit","t":"bool","v":b.value}),
        syn::Lit::Str(s) => json!({"k":"lit","t":"str","v":s.value()}),
        other => json!({"k":"lit","t":"other","v":ts(other)}),
    }
}

fn conv_block(b: &syn::Block) -> Value {
    json!({"k":"block","stmts":b.stmts.iter().map(conv_stmt).collect::<Vec<_>>(),"ln":ln(b.span())})
}

fn conv_macro(m: &syn::Macro) -> Value {
    let name = path_segs(&m.path).join("::");
    let args: Value = match m.parse_body_with(
        syn::punctuated::Punctuated::<syn::Expr, syn::Token![,]>::parse_terminated,
    ) {
        Ok(p) => Value::Array(p.iter().map(conv_expr).collect()),
        Err(_) => Value::Null,
    };
    json!({"k":"macro","name":name,"args":args,"raw":m.tokens.to_string(),"ln":ln(m.span())})
}

fn conv_stmt(s: &syn::Stmt) -> Value {
    match s {
        syn::Stmt::Local(l) => {
            let (pat, ty) = match &l.pat {
                syn::Pat::Type(t) => (conv_pat(&t.pat), Value::String(ts(&*t.ty))),
                p => (conv_pat(p), Value::Null),
            };
            let init = match &l.init {
                Some(i) => {
                    if i.diverge.is_some() {
                        return unsupported(l);
                    }
                    conv_expr(&i.expr)
                }
                None => Value::Null,
            };
            json!({"k":"local","pat":pat,"ty":ty,"init":init,"ln":ln(l.span())})
        }
        syn::Stmt::Item(i) => json!({"k":"item","item":conv_item(i),"ln":ln(i.span())}),
        syn::Stmt::Expr(e, semi) => json!({"k":"expr","e":conv_expr(e),"semi":semi.is_some(),"ln":ln(e.span())}),
        syn::Stmt::Macro(m) => json!({"k":"expr","e":conv_macro(&m.mac),"semi":true,"ln":ln(m.span())}),
    }
}

fn binop(op: &syn::BinOp) -> &'static str {
    use syn::BinOp::*;
    match op {
        Add(_) => "+", Sub(_) => "-", Mul(_) => "*", Div(_) => "/", Rem(_) => "%",
        And(_) => "&&", Or(_) => "||", BitXor(_) => "^", BitAnd(_) => "&", BitOr(_) => "|",
        Shl(_) => "<<", Shr(_) => ">>", Eq(_) => "==", Lt(_) => "<", Le(_) => "<=",
        Ne(_) => "!=", Ge(_) => ">=", Gt(_) => ">",
        AddAssign(_) => "+=", SubAssign(_) => "-=", MulAssign(_) => "*=", DivAssign(_) => "/=",
        RemAssign(_) => "%=", BitXorAssign(_) => "^=", BitAndAssign(_) => "&=",
        BitOrAssign(_) => "|=", ShlAssign(_) => "<<=", ShrAssign(_) => ">>=",
        _ => "?",
    }
}

fn conv_expr(e: &syn::Expr) -> Value {
    use syn::Expr::*;
    let l = ln(e.span());
    match e {
        Lit(x) => {
            let mut v = conv_lit(&x.lit);
            v["ln"] = json!(l);
            v
        }
        Path(p) => {
            if p.qself.is_some() {
                return unsupported(e);
            }
            json!({"k":"path","segs":path_segs(&p.path),"ln":l})
        }
        Field(f) => {
            let name = match &f.member {
                syn::Member::Named(i) => i.to_string(),
                syn::Member::Unnamed(i) => i.index.to_string(),
            };
            json!({"k":"field","base":conv_expr(&f.base),"name":name,"ln":l})
        }
        Index(i) => json!({"k":"index","base":conv_expr(&i.expr),"idx":conv_expr(&i.index),"ln":l}),
        Range(r) => json!({"k":"range",
            "lo": r.start.as_ref().map(|x| conv_expr(x)).unwrap_or(Value::Null),
            "hi": r.end.as_ref().map(|x| conv_expr(x)).unwrap_or(Value::Null),
            "incl": matches!(r.limits, syn::RangeLimits::Closed(_)), "ln":l}),
        Reference(r) => json!({"k":"ref","mut":r.mutability.is_some(),"e":conv_expr(&r.expr),"ln":l}),
        Unary(u) => {
            let op = match u.op {
                syn::UnOp::Neg(_) => "-",
                syn::UnOp::Not(_) => "!",
                syn::UnOp::Deref(_) => "*",
                _ => "?",
            };
            json!({"k":"unary","op":op,"e":conv_expr(&u.expr),"ln":l})
        }
        Binary(b) => json!({"k":"binary","op":binop(&b.op),"l":conv_expr(&b.left),"r":conv_expr(&b.right),"ln":l}),
        Assign(a) => json!({"k":"assign","l":conv_expr(&a.left),"r":conv_expr(&a.right),"ln":l}),
        Cast(c) => json!({"k":"cast","e":conv_expr(&c.expr),"ty":ts(&*c.ty),"ln":l}),
        Paren(p) => conv_expr(&p.expr),
        Group(g) => conv_expr(&g.expr),
        Block(b) => {
            if b.label.is_some() {
                return unsupported(e);
            }
            conv_block(&b.block)
        }
        If(i) => json!({"k":"if","cond":conv_expr(&i.cond),"then":conv_block(&i.then_branch),
            "else": i.else_branch.as_ref().map(|(_, x)| conv_expr(x)).unwrap_or(Value::Null),"ln":l}),
        Let(x) => json!({"k":"let","pat":conv_pat(&x.pat),"e":conv_expr(&x.expr),"ln":l}),
        Match(m) => json!({"k":"match","e":conv_expr(&m.expr),"arms":m.arms.iter().map(|a| json!({
            "pat":conv_pat(&a.pat),
            "guard":a.guard.as_ref().map(|(_, g)| conv_expr(g)).unwrap_or(Value::Null),
            "body":conv_expr(&a.body)})).collect::<Vec<_>>(),"ln":l}),
        ForLoop(f) => {
            if f.label.is_some() {
                return unsupported(e);
            }
            json!({"k":"for","pat":conv_pat(&f.pat),"iter":conv_expr(&f.expr),"body":conv_block(&f.body),"ln":l})
        }
        While(w) => {
            if w.label.is_some() {
                return unsupported(e);
            }
            json!({"k":"while","cond":conv_expr(&w.cond),"body":conv_block(&w.body),"ln":l})
        }
        Return(r) => json!({"k":"return","e":r.expr.as_ref().map(|x| conv_expr(x)).unwrap_or(Value::Null),"ln":l}),
        Break(b) => {
            if b.label.is_some() || b.expr.is_some() {
                return unsupported(e);
            }
            json!({"k":"break","ln":l})
        }
        Continue(c) => {
            if c.label.is_some() {
                return unsupported(e);
            }
            json!({"k":"continue","ln":l})
        }
        Struct(s) => {
            if s.qself.is_some() {
                return unsupported(e);
            }
            json!({"k":"struct","path":path_segs(&s.path),
                "fields":s.fields.iter().map(|f| {
                    let name = match &f.member {
                        syn::Member::Named(i) => i.to_string(),
                        syn::Member::Unnamed(i) => i.index.to_string(),
                    };
                    json!([name, conv_expr(&f.expr)])
                }).collect::<Vec<_>>(),
                "rest": s.rest.as_ref().map(|x| conv_expr(x)).unwrap_or(Value::Null),"ln":l})
        }
        Array(a) => json!({"k":"array","elems":a.elems.iter().map(conv_expr).collect::<Vec<_>>(),"ln":l}),
        Repeat(r) => json!({"k":"repeat","e":conv_expr(&r.expr),"len":conv_expr(&r.len),"ln":l}),
        Tuple(t) => json!({"k":"tuple","elems":t.elems.iter().map(conv_expr).collect::<Vec<_>>(),"ln":l}),
        Call(c) => json!({"k":"call","f":conv_expr(&c.func),"args":c.args.iter().map(conv_expr).collect::<Vec<_>>(),"ln":l}),
        MethodCall(m) => {
            json!({"k":"mcall","recv":conv_expr(&m.receiver),"m":m.method.to_string(),
                "turbofish": m.turbofish.as_ref().map(|t| ts(t)).unwrap_or_default(),
                "args":m.args.iter().map(conv_expr).collect::<Vec<_>>(),"ln":l})
        }
        Macro(m) => conv_macro(&m.mac),
        Closure(c) => json!({"k":"closure","params":c.inputs.iter().map(conv_pat).collect::<Vec<_>>(),
            "body":conv_expr(&c.body),"ln":l}),
        Try(t) => json!({"k":"try","e":conv_expr(&t.expr),"ln":l}),
        other => unsupported(other),
    }
}

fn attrs_text(attrs: &[syn::Attribute]) -> Vec<String> {
    attrs
        .iter()
        .filter(|a| !a.path().is_ident("doc"))
        .map(|a| ts(a))
        .collect()
}

fn first_line(attrs: &[syn::Attribute], fallback: Span) -> usize {
    attrs.iter().map(|a| ln(a.span())).min().unwrap_or(ln(fallback)).min(ln(fallback))
}

fn conv_sig(sig: &syn::Signature) -> (Value, Value, Value) {
    let mut selfk = Value::Null;
    let mut params = vec![];
    for a in &sig.inputs {
        match a {
            syn::FnArg::Receiver(r) => {
                selfk = json!(if r.reference.is_some() {
                    if r.mutability.is_some() { "&mut" } else { "&" }
                } else {
                    "val"
                });
            }
            syn::FnArg::Typed(t) => {
                params.push(json!({"pat":conv_pat(&t.pat),"ty":ts(&*t.ty)}));
            }
        }
    }
    let ret = match &sig.output {
        syn::ReturnType::Default => Value::Null,
        syn::ReturnType::Type(_, t) => json!(ts(&**t)),
    };
    (selfk, Value::Array(params), ret)
}

fn conv_fn(attrs: &[syn::Attribute], sig: &syn::Signature, block: Option<&syn::Block>, span: Span) -> Value {
    let (selfk, params, ret) = conv_sig(sig);
    json!({"k":"fn","name":sig.ident.to_string(),"self":selfk,"params":params,"ret":ret,
        "generics": ts(&sig.generics),
        "attrs":attrs_text(attrs),
        "body":block.map(conv_block).unwrap_or(Value::Null),
        "ln":ln(sig.fn_token.span()),"first_ln":first_line(attrs, span),"end_ln":span.end().line})
}

fn conv_item(i: &syn::Item) -> Value {
    use syn::Item::*;
    match i {
        Fn(f) => conv_fn(&f.attrs, &f.sig, Some(&f.block), f.span()),
        Impl(im) => {
            let items: Vec<Value> = im.items.iter().map(|it| match it {
                syn::ImplItem::Fn(f) => conv_fn(&f.attrs, &f.sig, Some(&f.block), f.span()),
                syn::ImplItem::Type(t) => json!({"k":"type","name":t.ident.to_string(),"ty":ts(&t.ty)}),
                syn::ImplItem::Const(c) => json!({"k":"const","name":c.ident.to_string(),"ty":ts(&c.ty),"e":conv_expr(&c.expr)}),
                other => json!({"k":"other","text":ts(other)}),
            }).collect();
            json!({"k":"impl","target":ts(&*im.self_ty),
                "trait": im.trait_.as_ref().map(|(_, p, _)| json!(ts(p))).unwrap_or(Value::Null),
                "generics": ts(&im.generics),
                "attrs":attrs_text(&im.attrs),
                "items":items,"ln":ln(im.impl_token.span()),"end_ln":im.span().end().line})
        }
        Struct(s) => {
            let fields: Vec<Value> = match &s.fields {
                syn::Fields::Named(n) => n.named.iter().map(|f| json!({"name":f.ident.as_ref().unwrap().to_string(),"ty":ts(&f.ty),"attrs":attrs_text(&f.attrs)})).collect(),
                syn::Fields::Unnamed(u) => u.unnamed.iter().enumerate().map(|(k, f)| json!({"name":k.to_string(),"ty":ts(&f.ty),"attrs":attrs_text(&f.attrs)})).collect(),
                syn::Fields::Unit => vec![],
            };
            json!({"k":"struct_def","name":s.ident.to_string(),"fields":fields,"attrs":attrs_text(&s.attrs),"ln":ln(s.span())})
        }
        Const(c) => json!({"k":"const","name":c.ident.to_string(),"ty":ts(&*c.ty),"e":conv_expr(&c.expr),"ln":ln(c.span())}),
        Type(t) => json!({"k":"type","name":t.ident.to_string(),"ty":ts(&*t.ty),"ln":ln(t.span())}),
        Mod(m) => json!({"k":"mod","name":m.ident.to_string(),"attrs":attrs_text(&m.attrs),
            "items": m.content.as_ref().map(|(_, its)| Value::Array(its.iter().map(conv_item).collect())).unwrap_or(Value::Null),
            "ln":ln(m.span()),"end_ln":m.span().end().line}),
        Macro(m) => json!({"k":"item_macro","name":path_segs(&m.mac.path).join("::"),
            "ident": m.ident.as_ref().map(|i| i.to_string()),
            "attrs":attrs_text(&m.attrs),
            "raw":m.mac.tokens.to_string(),"ln":ln(m.span()),"end_ln":m.span().end().line}),
        Use(u) => json!({"k":"use","text":ts(u),"ln":ln(u.span())}),
        Trait(t) => {
            let items: Vec<Value> = t.items.iter().map(|it| match it {
                syn::TraitItem::Fn(f) => conv_fn(&f.attrs, &f.sig, f.default.as_ref(), f.span()),
                other => json!({"k":"other","text":ts(other)}),
            }).collect();
            json!({"k":"trait","name":t.ident.to_string(),"items":items,"ln":ln(t.span())})
        }
        Enum(e) => json!({"k":"enum","name":e.ident.to_string(),
            "variants":e.variants.iter().map(|v| v.ident.to_string()).collect::<Vec<_>>(),"ln":ln(e.span())}),
        other => json!({"k":"other","text":ts(other),"ln":ln(other.span())}),
    }
}

fn conv_file(f: &syn::File) -> Value {
    json!({"k":"file","items":f.items.iter().map(conv_item).collect::<Vec<_>>()})
}

/// Substitute `$name` by the replacement token stream, `$crate` by `crate`.
fn subst(tsm: TokenStream, map: &HashMap<String, TokenStream>) -> TokenStream {
    let mut out: Vec<TokenTree> = vec![];
    let mut it = tsm.into_iter().peekable();
    while let Some(t) = it.next() {
        match &t {
            TokenTree::Punct(p) if p.as_char() == '$' => {
                if let Some(TokenTree::Ident(id)) = it.peek() {
                    let name = id.to_string();
                    let span = id.span();
                    if name == "crate" {
                        it.next();
                        out.push(TokenTree::Ident(Ident::new("crate", span)));
                        continue;
                    }
                    if let Some(rep) = map.get(&name) {
                        it.next();
                        for mut r in rep.clone().into_iter() {
                            r.set_span(span);
                            out.push(r);
                        }
                        continue;
                    }
                }
                out.push(t);
            }
            TokenTree::Group(g) => {
                let mut ng = Group::new(g.delimiter(), subst(g.stream(), map));
                ng.set_span(g.span());
                out.push(TokenTree::Group(ng));
            }
            _ => out.push(t),
        }
    }
    out.into_iter().collect()
}

fn find_macros<'a>(items: &'a [syn::Item], name: &str, out: &mut Vec<&'a syn::ItemMacro>) {
    for i in items {
        match i {
            syn::Item::Macro(m) => {
                if m.mac.path.is_ident("macro_rules") && m.ident.as_ref().map(|x| x == name).unwrap_or(false) {
                    out.push(m);
                }
            }
            syn::Item::Mod(md) => {
                if let Some((_, its)) = &md.content {
                    find_macros(its, name, out);
                }
            }
            _ => {}
        }
    }
}

fn main() {
    let args: Vec<String> = std::env::args().collect();
    if args.len() < 3 {
        eprintln!("usage: rsx parse <file> | rsx expand <file> <macro> k=v ...");
        std::process::exit(2);
    }
    let src = match std::fs::read_to_string(&args[2]) {
        Ok(s) => s,
        Err(e) => {
            eprintln!("rsx: cannot read {}: {}", args[2], e);
            std::process::exit(2);
        }
    };
    let file = match syn::parse_file(&src) {
        Ok(f) => f,
        Err(e) => {
            eprintln!("rsx: parse error in {}: {} at line {}", args[2], e, e.span().start().line);
            std::process::exit(2);
        }
    };
    match args[1].as_str() {
        "parse" => {
            println!("{}", conv_file(&file));
        }
        "expand" | "expand-serde" => {
            let want_serde = args[1] == "expand-serde";
            let name = &args[3];
            let mut map = HashMap::new();
            for kv in &args[4..] {
                let (k, v) = kv.split_once('=').expect("k=v");
                map.insert(k.to_string(), TokenStream::from_str(v).expect("tokens"));
            }
            let mut found = vec![];
            find_macros(&file.items, name, &mut found);
            // Prefer the definition that is not gated on feature = "serde".
            let pick = found
                .iter()
                .find(|m| {
                    let a = attrs_text(&m.attrs).join(" ");
                    a.contains("cfg (feature = \"serde\")") == want_serde
                })
                .or(found.first());
            let m = match pick {
                Some(m) => m,
                None => {
                    eprintln!("rsx: macro_rules! {} not found in {}", name, args[2]);
                    std::process::exit(2);
                }
            };
            // Single arm:  ( matcher ) => { body } ;
            let toks: Vec<TokenTree> = m.mac.tokens.clone().into_iter().collect();
            let mut arms = vec![];
            let mut i = 0;
            while i + 3 < toks.len() + 1 {
                if let (Some(TokenTree::Group(_)), Some(TokenTree::Punct(a)), Some(TokenTree::Punct(b)), Some(TokenTree::Group(body))) =
                    (toks.get(i), toks.get(i + 1), toks.get(i + 2), toks.get(i + 3))
                {
                    if a.as_char() == '=' && b.as_char() == '>' && body.delimiter() == Delimiter::Brace {
                        arms.push(body.stream());
                        i += 4;
                        if let Some(TokenTree::Punct(p)) = toks.get(i) {
                            if p.as_char() == ';' {
                                i += 1;
                            }
                        }
                        continue;
                    }
                }
                break;
            }
            if arms.len() != 1 {
                eprintln!("rsx: macro {} has {} arms, expected exactly 1", name, arms.len());
                std::process::exit(2);
            }
            let body = subst(arms.pop().unwrap(), &map);
            match syn::parse2::<syn::File>(body) {
                Ok(f) => println!("{}", conv_file(&f)),
                Err(e) => {
                    eprintln!("rsx: instantiated body of {} does not parse: {}", name, e);
                    std::process::exit(2);
                }
            }
        }
        _ => {
            eprintln!("rsx: unknown command");
            std::process::exit(2);
        }
    }
}
