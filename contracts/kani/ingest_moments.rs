// C20 ingestion glue for the moment family (bounded: sequences of length <= 3).
// collect by value / by reference, extend by value / by reference in one and two pieces, and the
// plain add loop must issue the same add calls in the same order from the same start state.  The
// float bodies of add are irrelevant to that claim, so add is replaced (kani::stub) by an
// order-sensitive recorder on the integer count field; for Mean the real add is used as well.

// An iterator that promises nothing about its length (size_hint() is the default (0, None), no ExactSizeIterator,
// no DoubleEndedIterator): glue that consults size hints or iterates from the back must still ingest every item.
struct Opaque<I>(I);
impl<I: Iterator> Iterator for Opaque<I> {
    type Item = I::Item;
    fn next(&mut self) -> Option<I::Item> {
        self.0.next()
    }
}

fn rec(n: u64, x: f64) -> u64 {
    n.rotate_left(1) ^ x.to_bits() ^ 0x9e3779b97f4a7c15
}

fn rec_mean_add(s: &mut Mean, x: f64) {
    s.n = rec(s.n, x);
}

fn rec_variance_add(s: &mut Variance, x: f64) {
    s.avg.n = rec(s.avg.n, x);
}

fn rec_skewness_add(s: &mut Skewness, x: f64) {
    s.avg.avg.n = rec(s.avg.avg.n, x);
}

fn rec_kurtosis_add(s: &mut Kurtosis, x: f64) {
    s.avg.avg.avg.n = rec(s.avg.avg.avg.n, x);
}

fn b(a: f64, c: f64) -> bool {
    a.to_bits() == c.to_bits()
}

fn same_mean(a: &Mean, c: &Mean) -> bool {
    a.n == c.n && b(a.avg, c.avg)
}

fn same_variance(a: &Variance, c: &Variance) -> bool {
    same_mean(&a.avg, &c.avg) && b(a.sum_2, c.sum_2)
}

fn same_skewness(a: &Skewness, c: &Skewness) -> bool {
    same_variance(&a.avg, &c.avg) && b(a.sum_3, c.sum_3)
}

fn same_kurtosis(a: &Kurtosis, c: &Kurtosis) -> bool {
    same_skewness(&a.avg, &c.avg) && b(a.sum_4, c.sum_4)
}

macro_rules! ingest_harness {
    ($name:ident, $T:ident, $same:ident, $base:expr) => {
        fn $name() {
            let xs: [f64; 3] = kani::any();
            let l: usize = kani::any();
            let cut: usize = kani::any();
            kani::assume(l <= 3 && cut <= l);
            let s = &xs[..l];
            let mut a = $T::new();
            for &x in s {
                a.add(x);
            }
            let bv: $T = s.iter().cloned().collect();
            let br: $T = s.iter().collect();
            let bvo: $T = Opaque(s.iter().cloned()).collect();
            let bro: $T = Opaque(s.iter()).collect();
            kani::cover!(l == 3);
            kani::cover!(l == 0);
            assert!($same(&a, &bv));
            assert!($same(&a, &br));
            assert!($same(&a, &bvo));
            assert!($same(&a, &bro));
            let base: $T = $base;
            let mut e0 = base.clone();
            for &x in s {
                e0.add(x);
            }
            let mut e1 = base.clone();
            e1.extend(s.iter().cloned());
            let mut e2 = base.clone();
            e2.extend(s.iter());
            let mut e3 = base.clone();
            e3.extend(Opaque(s[..cut].iter().cloned()));
            e3.extend(Opaque(s[cut..].iter()));
            assert!($same(&e1, &e0));
            assert!($same(&e2, &e0));
            assert!($same(&e3, &e0));
        }
    };
}

fn base_mean() -> Mean {
    Mean { avg: kani::any(), n: kani::any() }
}

fn base_variance() -> Variance {
    Variance { avg: base_mean(), sum_2: kani::any() }
}

fn base_skewness() -> Skewness {
    Skewness { avg: base_variance(), sum_3: kani::any() }
}

fn base_kurtosis() -> Kurtosis {
    Kurtosis { avg: base_skewness(), sum_4: kani::any() }
}

ingest_harness!(mean_ingest_body, Mean, same_mean, base_mean());
ingest_harness!(variance_ingest_body, Variance, same_variance, base_variance());
ingest_harness!(skewness_ingest_body, Skewness, same_skewness, base_skewness());
ingest_harness!(kurtosis_ingest_body, Kurtosis, same_kurtosis, base_kurtosis());

#[kani::proof]
#[kani::unwind(5)]
#[kani::stub(<Mean as Estimate>::add, rec_mean_add)]
fn mean_ingest_glue() {
    mean_ingest_body();
}

#[kani::proof]
#[kani::unwind(5)]
#[kani::stub(<Variance as Estimate>::add, rec_variance_add)]
fn variance_ingest_glue() {
    variance_ingest_body();
}

#[kani::proof]
#[kani::unwind(5)]
#[kani::stub(<Skewness as Estimate>::add, rec_skewness_add)]
fn skewness_ingest_glue() {
    skewness_ingest_body();
}

#[kani::proof]
#[kani::unwind(5)]
#[kani::stub(<Kurtosis as Estimate>::add, rec_kurtosis_add)]
fn kurtosis_ingest_glue() {
    kurtosis_ingest_body();
}
