// C19 wiring for the moment family: commutative multiset recorder stubs (included in module `moments`).
use rayon::iter::{FromParallelIterator, Refs, Vals};

fn rec_add_mean(s: &mut Mean, x: f64) {
    s.n = s.n.wrapping_add(1);
    s.avg = f64::from_bits((s.avg.to_bits().wrapping_add(x.to_bits() | 1)) & 0x000f_ffff_ffff_ffff);
}

fn rec_merge_mean(s: &mut Mean, o: &Mean) {
    s.n = s.n.wrapping_add(o.n);
    s.avg = f64::from_bits((s.avg.to_bits().wrapping_add(o.avg.to_bits())) & 0x000f_ffff_ffff_ffff);
}

fn rec_add_kurtosis(s: &mut Kurtosis, x: f64) {
    rec_add_mean(&mut s.avg.avg.avg, x);
}

fn rec_merge_kurtosis(s: &mut Kurtosis, o: &Kurtosis) {
    rec_merge_mean(&mut s.avg.avg.avg, &o.avg.avg.avg);
}

fn rec_add_variance(s: &mut Variance, x: f64) {
    rec_add_mean(&mut s.avg, x);
}

fn rec_merge_variance(s: &mut Variance, o: &Variance) {
    rec_merge_mean(&mut s.avg, &o.avg);
}

fn rec_add_skewness(s: &mut Skewness, x: f64) {
    rec_add_mean(&mut s.avg.avg, x);
}

fn rec_merge_skewness(s: &mut Skewness, o: &Skewness) {
    rec_merge_mean(&mut s.avg.avg, &o.avg.avg);
}

fn expected(xs: &[f64; 3], len: usize) -> (u64, u64) {
    let mut n = 0u64;
    let mut h = 0u64;
    let mut i = 0;
    while i < len {
        n += 1;
        h = h.wrapping_add(xs[i].to_bits() | 1) & 0x000f_ffff_ffff_ffff;
        i += 1;
    }
    (n, h)
}

fn any_input() -> ([f64; 3], usize) {
    let xs: [f64; 3] = kani::any();
    let len: usize = kani::any();
    kani::assume(len <= 3);
    (xs, len)
}

fn m_mean(e: &Mean) -> &Mean {
    e
}

fn m_variance(e: &Variance) -> &Mean {
    &e.avg
}

fn m_skewness(e: &Skewness) -> &Mean {
    &e.avg.avg
}

fn m_kurtosis(e: &Kurtosis) -> &Mean {
    &e.avg.avg.avg
}

macro_rules! par_body {
    ($T:ident, $mean:expr) => {{
        let (xs, len) = any_input();
        let a = $T::from_par_iter(Vals { xs, len });
        let r = $T::from_par_iter(Refs { xs: &xs, len });
        let (n, h) = expected(&xs, len);
        kani::cover!(len == 3);
        let ma: &Mean = $mean(&a);
        let mr: &Mean = $mean(&r);
        assert!(ma.n == n && ma.avg.to_bits() == h);
        assert!(mr.n == n && mr.avg.to_bits() == h);
    }};
}

#[kani::proof]
#[kani::unwind(5)]
#[kani::stub(<Mean as Estimate>::add, rec_add_mean)]
#[kani::stub(<Mean as Merge>::merge, rec_merge_mean)]
fn par_mean_wiring() {
    par_body!(Mean, m_mean)
}

#[kani::proof]
#[kani::unwind(5)]
#[kani::stub(<Variance as Estimate>::add, rec_add_variance)]
#[kani::stub(<Variance as Merge>::merge, rec_merge_variance)]
fn par_variance_wiring() {
    par_body!(Variance, m_variance)
}

#[kani::proof]
#[kani::unwind(5)]
#[kani::stub(<Skewness as Estimate>::add, rec_add_skewness)]
#[kani::stub(<Skewness as Merge>::merge, rec_merge_skewness)]
fn par_skewness_wiring() {
    par_body!(Skewness, m_skewness)
}

#[kani::proof]
#[kani::unwind(5)]
#[kani::stub(<Kurtosis as Estimate>::add, rec_add_kurtosis)]
#[kani::stub(<Kurtosis as Merge>::merge, rec_merge_kurtosis)]
fn par_kurtosis_wiring() {
    par_body!(Kurtosis, m_kurtosis)
}
