// Harnesses for define_moments! types (C11, C16, C17, C20).  Included as `mod verif_kani` inside a
// cfg(kani) module that instantiates the crate's own macro:  mod vmN { define_moments!(MN, N); mod verif_kani {..} }
// `MN` is aliased to `M`, `MAX_MOMENT` is the macro's own constant.

// An iterator that promises nothing about its length (size_hint() is the default (0, None), no ExactSizeIterator,
// no DoubleEndedIterator): glue that consults size hints or iterates from the back must still ingest every item.
struct Opaque<I>(I);
impl<I: Iterator> Iterator for Opaque<I> {
    type Item = I::Item;
    fn next(&mut self) -> Option<I::Item> {
        self.0.next()
    }
}

use crate::Merge;

fn bits_eq(a: f64, b: f64) -> bool {
    a.to_bits() == b.to_bits()
}

fn any_m() -> M {
    let n: u64 = kani::any();
    kani::assume(n < (1u64 << 53));
    let m = M { n, avg: kani::any(), m: kani::any() };
    kani::assume(!(m.m[0] < 0.));
    m
}

fn eq_m(a: &M, b: &M) -> bool {
    let mut ok = a.n == b.n;
    if a.n != 0 {
        ok = ok && bits_eq(a.avg, b.avg);
        let mut i = 0;
        while i < MAX_MOMENT - 1 {
            ok = ok && bits_eq(a.m[i], b.m[i]);
            i += 1;
        }
    }
    ok
}

#[kani::proof]
fn mn_merge_empty_right_left() {
    let a = any_m();
    let mut m = a.clone();
    m.merge(&M::new());
    let mut e = M::new();
    e.merge(&a);
    let mut d = M::default();
    d.merge(&a);
    kani::cover!(a.len() > 0);
    kani::cover!(a.len() == 0);
    assert!(eq_m(&m, &a) && eq_m(&e, &a) && eq_m(&d, &a));
    assert!(m.len() == a.len() && e.len() == a.len());
}

#[kani::proof]
fn mn_len_adds() {
    let a = any_m();
    let b = any_m();
    let b0 = b.clone();
    let mut m = a.clone();
    m.merge(&b);
    kani::cover!(a.len() > 0 && b.len() > 0);
    assert!(m.len() == a.len() + b.len());
    assert!(m.is_empty() == (m.len() == 0) && a.is_empty() == (a.len() == 0));
    assert!(eq_m(&b, &b0));
}

// C16 sentinels
#[kani::proof]
fn mn_sentinels() {
    let mut a = any_m();
    let n: u64 = kani::any();
    kani::assume(n <= 4);
    a.n = n;
    kani::cover!(n == 0);
    kani::cover!(n == 4);
    assert!(a.central_moment(0) == 1. && a.central_moment(1) == 0.);
    assert!(a.standardized_moment(0) == n as f64 && a.standardized_moment(1) == 0. && a.standardized_moment(2) == 1.);
    if n == 0 {
        assert!(a.mean().is_nan() && a.central_moment(2).is_nan() && a.central_moment(MAX_MOMENT).is_nan());
        assert!(a.sample_skewness().is_nan());
    }
    if n == 1 {
        assert!(a.sample_skewness() == 0.);
    }
    if n < 2 {
        assert!(a.sample_variance().is_nan());
    }
    if n < 4 {
        assert!(a.sample_excess_kurtosis().is_nan());
    }
    assert!(a.len() == n && a.is_empty() == (n == 0));
}

#[kani::proof]
fn mn_one_observation_exact() {
    let x: f64 = kani::any();
    kani::assume(x.abs() <= 1e30);
    let mut a = M::new();
    a.add(x);
    kani::cover!(true);
    assert!(a.mean() == x && a.len() == 1);
    let mut p = 1;
    while p <= MAX_MOMENT {
        assert!(a.central_moment(p) == 0.);
        p += 1;
    }
}

#[kani::proof]
fn mn_constant_stream_step() {
    let x: f64 = kani::any();
    let n: u64 = kani::any();
    kani::assume(x.abs() <= 1e30 && n >= 1 && n < (1u64 << 53) - 1);
    let mut a = M { n, avg: x, m: [0.; MAX_MOMENT - 1] };
    a.add(x);
    kani::cover!(true);
    assert!(a.avg == x && a.n == n + 1);
    let mut i = 0;
    while i < MAX_MOMENT - 1 {
        assert!(a.m[i] == 0.);
        i += 1;
    }
}

// C17: m[0] (the sum of squared deviations) never becomes negative
#[kani::proof]
fn mn_nonneg_add() {
    let mut a = any_m();
    let x: f64 = kani::any();
    a.add(x);
    kani::cover!(true);
    assert!(!(a.m[0] < 0.));
}

#[kani::proof]
fn mn_nonneg_merge() {
    let mut a = any_m();
    let b = any_m();
    a.merge(&b);
    kani::cover!(true);
    assert!(!(a.m[0] < 0.));
}

// C20: ingestion glue of the macro-generated FromIterator / Extend impls (recorder stub, length <= 3)
fn rec_m_add(s: &mut M, x: f64) {
    s.n = s.n.rotate_left(1) ^ x.to_bits() ^ 0x9e3779b97f4a7c15;
}

fn same_m(a: &M, b: &M) -> bool {
    let mut ok = a.n == b.n && bits_eq(a.avg, b.avg);
    let mut i = 0;
    while i < MAX_MOMENT - 1 {
        ok = ok && bits_eq(a.m[i], b.m[i]);
        i += 1;
    }
    ok
}

#[kani::proof]
#[kani::unwind(8)]
#[kani::stub(M::add, rec_m_add)]
fn mn_ingest_glue() {
    let xs: [f64; 3] = kani::any();
    let l: usize = kani::any();
    let cut: usize = kani::any();
    kani::assume(l <= 3 && cut <= l);
    let s = &xs[..l];
    let mut a = M::new();
    for &x in s {
        a.add(x);
    }
    let bv: M = s.iter().cloned().collect();
    let br: M = s.iter().collect();
    let bvo: M = Opaque(s.iter().cloned()).collect();
    let bro: M = Opaque(s.iter()).collect();
    kani::cover!(l == 3);
    assert!(same_m(&a, &bv) && same_m(&a, &br));
    assert!(same_m(&a, &bvo) && same_m(&a, &bro));
    let base = M { n: kani::any(), avg: kani::any(), m: kani::any() };
    let mut e0 = base.clone();
    for &x in s {
        e0.add(x);
    }
    let mut e1 = base.clone();
    e1.extend(s.iter().cloned());
    let mut e2 = base.clone();
    e2.extend(s.iter());
    let mut e3 = base.clone();
    e3.extend(Opaque(s[..cut].iter().cloned()));
    e3.extend(Opaque(s[cut..].iter()));
    assert!(same_m(&e1, &e0) && same_m(&e2, &e0) && same_m(&e3, &e0));
}

// C19: parallel-collection wiring for the macro-generated type (only compiled when the crate is built with
// feature rayon, i.e. in the C19 job where `rayon` is the specification stub).
#[cfg(feature = "rayon")]
mod par_n {
    use super::*;
    use rayon::iter::{FromParallelIterator, Refs, Vals};

    fn rec_add(s: &mut M, x: f64) {
        s.n = s.n.wrapping_add(1);
        s.avg = f64::from_bits((s.avg.to_bits().wrapping_add(x.to_bits() | 1)) & 0x000f_ffff_ffff_ffff);
    }

    fn rec_merge(s: &mut M, o: &M) {
        s.n = s.n.wrapping_add(o.n);
        s.avg = f64::from_bits((s.avg.to_bits().wrapping_add(o.avg.to_bits())) & 0x000f_ffff_ffff_ffff);
    }

    #[kani::proof]
    #[kani::unwind(8)]
    #[kani::stub(M::add, rec_add)]
    #[kani::stub(<M as Merge>::merge, rec_merge)]
    fn mn_par_wiring() {
        let xs: [f64; 3] = kani::any();
        let len: usize = kani::any();
        kani::assume(len <= 3);
        let a = M::from_par_iter(Vals { xs, len });
        let r = M::from_par_iter(Refs { xs: &xs, len });
        let mut n = 0u64;
        let mut h = 0u64;
        let mut i = 0;
        while i < len {
            n += 1;
            h = h.wrapping_add(xs[i].to_bits() | 1) & 0x000f_ffff_ffff_ffff;
            i += 1;
        }
        kani::cover!(len == 3);
        assert!(a.n == n && a.avg.to_bits() == h);
        assert!(r.n == n && r.avg.to_bits() == h);
    }
}
