// C20 ingestion glue for Min (Extend + FromIterator) and Max (FromIterator only), real add, length <= 3.
#[kani::proof]
#[kani::unwind(5)]
fn minmax_ingest_glue() {
    let xs: [f64; 3] = kani::any();
    let l: usize = kani::any();
    let cut: usize = kani::any();
    kani::assume(l <= 3 && cut <= l);
    let s = &xs[..l];
    let mut a = Min::new();
    let mut m = Max::new();
    for &x in s {
        a.add(x);
        m.add(x);
    }
    let bv: Min = s.iter().cloned().collect();
    let br: Min = s.iter().collect();
    let mv: Max = s.iter().cloned().collect();
    let mr: Max = s.iter().collect();
    kani::cover!(l == 3);
    let same = |p: f64, q: f64| p.to_bits() == q.to_bits() || (p.is_nan() && q.is_nan());
    assert!(same(a.x, bv.x) && same(a.x, br.x));
    assert!(same(m.x, mv.x) && same(m.x, mr.x));
    let base: f64 = kani::any();
    let mut e0 = Min { x: base };
    for &x in s {
        e0.add(x);
    }
    let mut e1 = Min { x: base };
    e1.extend(s.iter().cloned());
    let mut e2 = Min { x: base };
    e2.extend(s.iter());
    let mut e3 = Min { x: base };
    e3.extend(s[..cut].iter().cloned());
    e3.extend(s[cut..].iter());
    assert!(same(e1.x, e0.x) && same(e2.x, e0.x) && same(e3.x, e0.x));
    assert!(same(a.estimate(), a.min()) && same(m.estimate(), m.max()));
}
