// C20 ingestion glue for Min (Extend + FromIterator) and Max (FromIterator only), real add, length <= 3.
// An iterator that promises nothing about its length (size_hint() is the default (0, None), no ExactSizeIterator,
// no DoubleEndedIterator): glue that consults size hints or iterates from the back must still ingest every item.
struct Opaque<I>(I);
impl<I: Iterator> Iterator for Opaque<I> {
    type Item = I::Item;
    fn next(&mut self) -> Option<I::Item> {
        self.0.next()
    }
}

#[kani::proof]
#[kani::unwind(5)]
fn minmax_ingest_glue() {
    let xs: [f64; 3] = kani::any();
    let l: usize = kani::any();
    let cut: usize = kani::any();
    kani::assume(l <= 3 && cut <= l);
    let s = &xs[..l];
    let mut a = Min::new();
    let mut m = Max::new();
    for &x in s {
        a.add(x);
        m.add(x);
    }
    let bv: Min = s.iter().cloned().collect();
    let br: Min = s.iter().collect();
    let mv: Max = s.iter().cloned().collect();
    let mr: Max = s.iter().collect();
    let bvo: Min = Opaque(s.iter().cloned()).collect();
    let bro: Min = Opaque(s.iter()).collect();
    let mvo: Max = Opaque(s.iter().cloned()).collect();
    let mro: Max = Opaque(s.iter()).collect();
    kani::cover!(l == 3);
    let same = |p: f64, q: f64| p.to_bits() == q.to_bits() || (p.is_nan() && q.is_nan());
    assert!(same(a.x, bv.x) && same(a.x, br.x));
    assert!(same(m.x, mv.x) && same(m.x, mr.x));
    assert!(same(a.x, bvo.x) && same(a.x, bro.x) && same(m.x, mvo.x) && same(m.x, mro.x));
    let base: f64 = kani::any();
    let mut e0 = Min { x: base };
    for &x in s {
        e0.add(x);
    }
    let mut e1 = Min { x: base };
    e1.extend(s.iter().cloned());
    let mut e2 = Min { x: base };
    e2.extend(s.iter());
    let mut e3 = Min { x: base };
    e3.extend(Opaque(s[..cut].iter().cloned()));
    e3.extend(Opaque(s[cut..].iter()));
    assert!(same(e1.x, e0.x) && same(e2.x, e0.x) && same(e3.x, e0.x));
    assert!(same(a.estimate(), a.min()) && same(m.estimate(), m.max()));
}
