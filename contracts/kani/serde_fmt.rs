// A minimal LOSSLESS serde data format, used as the executable form of C18's premise ("with a lossless format").
// It is a token tape: integers verbatim, floats as their bit patterns, struct fields with their names, arrays as
// tuples.  Two reading modes exercise both halves of the derive-generated Deserialize code:
//   Mode::Map  - self-describing, field names are matched (what serde_json does)
//   Mode::Seq  - positional (what bincode-like formats do)
// Nothing here allocates or formats, so the derive-generated code is all that CBMC has to work through.
// Everything the estimator types do not need answers Err(E) - a harness that ran into it fails its `is_ok` check.
use core::fmt;
use serde::de::{self, DeserializeSeed, MapAccess, SeqAccess, Visitor};
use serde::ser::{self, Serialize};

pub const CAP: usize = 48;

// Token kinds.  The tape is three parallel arrays (kind / 64-bit payload / field name) rather than an array of an enum
// with payloads: CBMC then keeps kinds and field-name pointers concrete, so that the by-name dispatch of the
// derive-generated visitors is decided during symbolic execution instead of being left to the SAT solver
// (with an enum tape, a struct with two nested struct fields did not finish in 20 minutes).
pub const K_NIL: u8 = 0;
pub const K_U64: u8 = 1;
pub const K_I64: u8 = 2;
pub const K_F64: u8 = 3;
pub const K_KEY: u8 = 4;
pub const K_STRUCT: u8 = 5;
pub const K_TUPLE: u8 = 6;

#[derive(Debug)]
pub struct Tape {
    pub kind: [u8; CAP],
    pub val: [u64; CAP],
    pub key: [&'static str; CAP],
    pub len: usize,
}

impl Tape {
    pub fn new() -> Tape {
        Tape { kind: [K_NIL; CAP], val: [0; CAP], key: [""; CAP], len: 0 }
    }
    fn push(&mut self, kind: u8, val: u64, key: &'static str) -> Result<(), E> {
        if self.len >= CAP {
            return Err(E);
        }
        self.kind[self.len] = kind;
        self.val[self.len] = val;
        self.key[self.len] = key;
        self.len += 1;
        Ok(())
    }
}

#[derive(Debug)]
pub struct E;
impl fmt::Display for E {
    fn fmt(&self, _f: &mut fmt::Formatter<'_>) -> fmt::Result {
        Ok(())
    }
}
impl ser::StdError for E {}
impl ser::Error for E {
    fn custom<T: fmt::Display>(_msg: T) -> Self {
        E
    }
}
impl de::Error for E {
    fn custom<T: fmt::Display>(_msg: T) -> Self {
        E
    }
}

// ---------------------------------------------------------------------------------------------------- writing
#[derive(Debug)]
pub struct Ser<'a> {
    pub tape: &'a mut Tape,
}

#[derive(Debug)]
pub struct Compound<'a> {
    tape: &'a mut Tape,
}

macro_rules! unsupported_ser {
    ($($f:ident($($t:ty),*))*) => { $( fn $f(self, $(_: $t),*) -> Result<(), E> { Err(E) } )* };
}

impl<'a> ser::Serializer for Ser<'a> {
    type Ok = ();
    type Error = E;
    type SerializeSeq = ser::Impossible<(), E>;
    type SerializeTuple = Compound<'a>;
    type SerializeTupleStruct = ser::Impossible<(), E>;
    type SerializeTupleVariant = ser::Impossible<(), E>;
    type SerializeMap = ser::Impossible<(), E>;
    type SerializeStruct = Compound<'a>;
    type SerializeStructVariant = ser::Impossible<(), E>;

    fn serialize_u64(self, v: u64) -> Result<(), E> {
        self.tape.push(K_U64, v, "")
    }
    fn serialize_i64(self, v: i64) -> Result<(), E> {
        self.tape.push(K_I64, v as u64, "")
    }
    fn serialize_f64(self, v: f64) -> Result<(), E> {
        self.tape.push(K_F64, v.to_bits(), "")
    }
    fn serialize_newtype_struct<T: ?Sized + Serialize>(self, _name: &'static str, value: &T) -> Result<(), E> {
        value.serialize(self)
    }
    fn serialize_tuple(self, len: usize) -> Result<Compound<'a>, E> {
        self.tape.push(K_TUPLE, len as u64, "")?;
        Ok(Compound { tape: self.tape })
    }
    fn serialize_struct(self, _name: &'static str, len: usize) -> Result<Compound<'a>, E> {
        self.tape.push(K_STRUCT, len as u64, "")?;
        Ok(Compound { tape: self.tape })
    }

    unsupported_ser! {
        serialize_bool(bool) serialize_i8(i8) serialize_i16(i16) serialize_i32(i32)
        serialize_u8(u8) serialize_u16(u16) serialize_u32(u32) serialize_f32(f32) serialize_char(char)
        serialize_str(&str) serialize_bytes(&[u8]) serialize_none() serialize_unit() serialize_unit_struct(&'static str)
        serialize_unit_variant(&'static str, u32, &'static str)
    }
    fn serialize_some<T: ?Sized + Serialize>(self, _value: &T) -> Result<(), E> {
        Err(E)
    }
    fn serialize_newtype_variant<T: ?Sized + Serialize>(self, _: &'static str, _: u32, _: &'static str, _: &T) -> Result<(), E> {
        Err(E)
    }
    fn serialize_seq(self, _len: Option<usize>) -> Result<Self::SerializeSeq, E> {
        Err(E)
    }
    fn serialize_tuple_struct(self, _: &'static str, _: usize) -> Result<Self::SerializeTupleStruct, E> {
        Err(E)
    }
    fn serialize_tuple_variant(self, _: &'static str, _: u32, _: &'static str, _: usize) -> Result<Self::SerializeTupleVariant, E> {
        Err(E)
    }
    fn serialize_map(self, _len: Option<usize>) -> Result<Self::SerializeMap, E> {
        Err(E)
    }
    fn serialize_struct_variant(self, _: &'static str, _: u32, _: &'static str, _: usize) -> Result<Self::SerializeStructVariant, E> {
        Err(E)
    }
    fn collect_str<T: ?Sized + fmt::Display>(self, _value: &T) -> Result<(), E> {
        Err(E)
    }
    fn is_human_readable(&self) -> bool {
        true
    }
}

impl<'a> ser::SerializeTuple for Compound<'a> {
    type Ok = ();
    type Error = E;
    fn serialize_element<T: ?Sized + Serialize>(&mut self, value: &T) -> Result<(), E> {
        value.serialize(Ser { tape: &mut *self.tape })
    }
    fn end(self) -> Result<(), E> {
        Ok(())
    }
}

impl<'a> ser::SerializeStruct for Compound<'a> {
    type Ok = ();
    type Error = E;
    fn serialize_field<T: ?Sized + Serialize>(&mut self, key: &'static str, value: &T) -> Result<(), E> {
        self.tape.push(K_KEY, 0, key)?;
        value.serialize(Ser { tape: &mut *self.tape })
    }
    fn end(self) -> Result<(), E> {
        Ok(())
    }
}

// ---------------------------------------------------------------------------------------------------- reading
#[derive(Clone, Copy, PartialEq, Debug)]
pub enum Mode {
    Map,
    Seq,
}

#[derive(Debug)]
pub struct De<'t> {
    pub tape: &'t Tape,
    pub pos: usize,
    pub mode: Mode,
}

impl<'t> De<'t> {
    /// index of the next token
    fn next(&mut self) -> Result<usize, E> {
        if self.pos >= self.tape.len {
            return Err(E);
        }
        let i = self.pos;
        self.pos += 1;
        Ok(i)
    }
    fn scalar(k: u8) -> bool {
        k == K_U64 || k == K_I64 || k == K_F64
    }
    /// Skip one value (a scalar, or a tuple of scalars) - what a self-describing format does for an ignored field.
    fn skip_value(&mut self) -> Result<(), E> {
        let i = self.next()?;
        let k = self.tape.kind[i];
        if Self::scalar(k) {
            return Ok(());
        }
        if k == K_TUPLE {
            let n = self.tape.val[i] as usize;
            if n > CAP {
                return Err(E);
            }
            let mut j = 0;
            while j < n {
                let e = self.next()?;
                if !Self::scalar(self.tape.kind[e]) {
                    return Err(E);
                }
                j += 1;
            }
            return Ok(());
        }
        Err(E)
    }
}

impl<'de, 'a, 't> de::Deserializer<'de> for &'a mut De<'t> {
    type Error = E;

    fn deserialize_any<V: Visitor<'de>>(self, visitor: V) -> Result<V::Value, E> {
        let i = self.next()?;
        let v = self.tape.val[i];
        match self.tape.kind[i] {
            K_U64 => visitor.visit_u64(v),
            K_I64 => visitor.visit_i64(v as i64),
            K_F64 => visitor.visit_f64(f64::from_bits(v)),
            _ => Err(E),
        }
    }
    fn deserialize_u64<V: Visitor<'de>>(self, visitor: V) -> Result<V::Value, E> {
        let i = self.next()?;
        if self.tape.kind[i] != K_U64 {
            return Err(E);
        }
        visitor.visit_u64(self.tape.val[i])
    }
    fn deserialize_i64<V: Visitor<'de>>(self, visitor: V) -> Result<V::Value, E> {
        let i = self.next()?;
        if self.tape.kind[i] != K_I64 {
            return Err(E);
        }
        visitor.visit_i64(self.tape.val[i] as i64)
    }
    fn deserialize_f64<V: Visitor<'de>>(self, visitor: V) -> Result<V::Value, E> {
        let i = self.next()?;
        if self.tape.kind[i] != K_F64 {
            return Err(E);
        }
        visitor.visit_f64(f64::from_bits(self.tape.val[i]))
    }
    fn deserialize_newtype_struct<V: Visitor<'de>>(self, _name: &'static str, visitor: V) -> Result<V::Value, E> {
        visitor.visit_newtype_struct(self)
    }
    fn deserialize_tuple<V: Visitor<'de>>(self, len: usize, visitor: V) -> Result<V::Value, E> {
        let i = self.next()?;
        if self.tape.kind[i] != K_TUPLE || self.tape.val[i] as usize != len {
            return Err(E);
        }
        visitor.visit_seq(Elems { de: self, left: len, keyed: false })
    }
    fn deserialize_struct<V: Visitor<'de>>(self, _name: &'static str, _fields: &'static [&'static str], visitor: V) -> Result<V::Value, E> {
        let i = self.next()?;
        if self.tape.kind[i] != K_STRUCT {
            return Err(E);
        }
        let n = self.tape.val[i] as usize;
        if self.mode == Mode::Map {
            visitor.visit_map(Elems { de: self, left: n, keyed: true })
        } else {
            visitor.visit_seq(Elems { de: self, left: n, keyed: true })
        }
    }
    fn deserialize_ignored_any<V: Visitor<'de>>(self, visitor: V) -> Result<V::Value, E> {
        self.skip_value()?;
        visitor.visit_unit()
    }
    serde::forward_to_deserialize_any! {
        bool i8 i16 i32 i128 u8 u16 u32 u128 f32 char str string bytes byte_buf option unit unit_struct
        seq tuple_struct map enum identifier
    }
}

#[derive(Debug)]
struct KeyDe(&'static str);
impl<'de> de::Deserializer<'de> for KeyDe {
    type Error = E;
    fn deserialize_any<V: Visitor<'de>>(self, visitor: V) -> Result<V::Value, E> {
        visitor.visit_str(self.0)
    }
    serde::forward_to_deserialize_any! {
        bool i8 i16 i32 i64 i128 u8 u16 u32 u64 u128 f32 f64 char str string bytes byte_buf option unit unit_struct
        newtype_struct seq tuple tuple_struct map struct enum identifier ignored_any
    }
}

#[derive(Debug)]
struct Elems<'a, 't> {
    de: &'a mut De<'t>,
    left: usize,
    keyed: bool,
}

impl<'de, 'a, 't> SeqAccess<'de> for Elems<'a, 't> {
    type Error = E;
    fn next_element_seed<S: DeserializeSeed<'de>>(&mut self, seed: S) -> Result<Option<S::Value>, E> {
        if self.left == 0 {
            return Ok(None);
        }
        self.left -= 1;
        if self.keyed {
            let i = self.de.next()?;
            if self.de.tape.kind[i] != K_KEY {
                return Err(E);
            }
        }
        seed.deserialize(&mut *self.de).map(Some)
    }
}

impl<'de, 'a, 't> MapAccess<'de> for Elems<'a, 't> {
    type Error = E;
    fn next_key_seed<S: DeserializeSeed<'de>>(&mut self, seed: S) -> Result<Option<S::Value>, E> {
        if self.left == 0 {
            return Ok(None);
        }
        self.left -= 1;
        let i = self.de.next()?;
        if self.de.tape.kind[i] != K_KEY {
            return Err(E);
        }
        seed.deserialize(KeyDe(self.de.tape.key[i])).map(Some)
    }
    fn next_value_seed<S: DeserializeSeed<'de>>(&mut self, seed: S) -> Result<S::Value, E> {
        seed.deserialize(&mut *self.de)
    }
}

/// serialise `v` onto the (fresh) tape `t`
pub fn to_tape<T: Serialize>(v: &T, t: &mut Tape) -> Result<(), E> {
    v.serialize(Ser { tape: t })
}

/// read a `T` back; the whole tape must be consumed
pub fn from_tape<T: de::DeserializeOwned>(t: &Tape, mode: Mode) -> Result<T, E> {
    let mut d = De { tape: t, pos: 0, mode };
    let v = T::deserialize(&mut d)?;
    if d.pos != t.len {
        return Err(E);
    }
    Ok(v)
}
