// Harnesses for src/weighted_mean.rs (C11, C16, C17).  Included as `mod verif_kani` at the end of the file.

fn bits_eq(a: f64, b: f64) -> bool {
    a.to_bits() == b.to_bits()
}

fn pos_zero_or_positive(w: f64) -> bool {
    // not NaN, not negative, not -0.0
    w >= 0. && !(w == 0. && w.is_sign_negative())
}

// is_valid(WeightedMean): weight_sum is +0.0 or positive (sum of non-negative weights starting at +0.0)
fn any_wm() -> WeightedMean {
    let w = WeightedMean { weight_sum: kani::any(), weighted_avg: kani::any() };
    kani::assume(pos_zero_or_positive(w.weight_sum));
    w
}

// observable: the weight sum always; the mean only when the weight sum is non-zero
fn eq_wm(a: &WeightedMean, b: &WeightedMean) -> bool {
    bits_eq(a.weight_sum, b.weight_sum) && (a.weight_sum == 0. || bits_eq(a.weighted_avg, b.weighted_avg))
}

fn any_wme() -> WeightedMeanWithError {
    let n: u64 = kani::any();
    kani::assume(n < (1u64 << 53));
    let w = WeightedMeanWithError {
        weight_sum_sq: kani::any(),
        weighted_avg: any_wm(),
        unweighted_avg: MeanWithError::new(),
    };
    kani::assume(pos_zero_or_positive(w.weight_sum_sq));
    w
}

#[kani::proof]
fn wm_merge_empty_right() {
    let a = any_wm();
    let mut m = a.clone();
    m.merge(&WeightedMean::new());
    kani::cover!(a.weight_sum > 0.);
    assert!(eq_wm(&m, &a));
    assert!(bits_eq(m.sum_weights(), a.sum_weights()));
    assert!(bits_eq(m.mean(), a.mean()) || (m.mean().is_nan() && a.mean().is_nan()));
}

#[kani::proof]
fn wm_merge_empty_left() {
    let a = any_wm();
    let mut e = WeightedMean::new();
    e.merge(&a);
    let mut d = WeightedMean::default();
    d.merge(&a);
    kani::cover!(a.weight_sum > 0.);
    assert!(eq_wm(&e, &a) && eq_wm(&d, &a));
    assert!(bits_eq(e.mean(), a.mean()) || (e.mean().is_nan() && a.mean().is_nan()));
}

#[kani::proof]
fn wm_merge_frame_other() {
    let mut a = any_wm();
    let b = any_wm();
    let b0 = b.clone();
    a.merge(&b);
    kani::cover!(true);
    assert!(bits_eq(b.weight_sum, b0.weight_sum) && bits_eq(b.weighted_avg, b0.weighted_avg));
}

// is_valid is inductive (weights >= 0)
#[kani::proof]
fn wm_valid_add() {
    let mut a = any_wm();
    let (x, w): (f64, f64) = (kani::any(), kani::any());
    kani::assume(w >= 0. && w <= 1e300 && a.weight_sum <= 1e300);
    a.add(x, w);
    kani::cover!(true);
    assert!(pos_zero_or_positive(a.weight_sum) || (w == 0. && a.weight_sum == 0.));
    assert!(a.weight_sum >= 0.);
}

#[kani::proof]
fn wm_sentinels() {
    let a = any_wm();
    kani::cover!(a.weight_sum == 0.);
    kani::cover!(a.weight_sum > 0.);
    if a.weight_sum == 0. {
        assert!(a.mean().is_nan() && a.is_empty() && a.sum_weights() == 0.);
    } else {
        assert!(bits_eq(a.mean(), a.weighted_avg) && !a.is_empty());
    }
    let z = WeightedMean::new();
    assert!(z.mean().is_nan() && z.sum_weights() == 0. && z.is_empty() && bits_eq(z.weight_sum, 0.));
}

// WeightedMeanWithError: identity of merge on the observable state
fn wme_with(var: MeanWithError) -> WeightedMeanWithError {
    let w = WeightedMeanWithError { weight_sum_sq: kani::any(), weighted_avg: any_wm(), unweighted_avg: var };
    kani::assume(pos_zero_or_positive(w.weight_sum_sq));
    w
}

#[kani::proof]
fn wme_merge_empty_right_left() {
    let mut var = MeanWithError::new();
    let x: f64 = kani::any();
    let nonempty: bool = kani::any();
    if nonempty {
        var.add(x);
    }
    let a = wme_with(var);
    let mut m = a.clone();
    m.merge(&WeightedMeanWithError::new());
    let mut e = WeightedMeanWithError::new();
    e.merge(&a);
    kani::cover!(nonempty && a.weighted_avg.weight_sum > 0.);
    kani::cover!(!nonempty);
    assert!(bits_eq(m.weight_sum_sq, a.weight_sum_sq) && eq_wm(&m.weighted_avg, &a.weighted_avg));
    assert!(bits_eq(e.weight_sum_sq, a.weight_sum_sq) && eq_wm(&e.weighted_avg, &a.weighted_avg));
    assert!(m.len() == a.len() && e.len() == a.len());
    assert!(bits_eq(m.sum_weights(), a.sum_weights()) && bits_eq(e.sum_weights(), a.sum_weights()));
    assert!(bits_eq(m.sum_weights_sq(), a.sum_weights_sq()) && bits_eq(e.sum_weights_sq(), a.sum_weights_sq()));
    assert!(m.is_empty() == (m.len() == 0) && e.is_empty() == (e.len() == 0));
}

#[kani::proof]
fn wme_sentinels() {
    let z = WeightedMeanWithError::new();
    kani::cover!(true);
    assert!(z.weighted_mean().is_nan() && z.unweighted_mean().is_nan() && z.population_variance().is_nan());
    assert!(z.sample_variance().is_nan() && z.variance_of_weighted_mean().is_nan() && z.error().is_nan());
    assert!(z.sum_weights() == 0. && z.sum_weights_sq() == 0. && z.effective_len() == 0. && z.len() == 0 && z.is_empty());
    // total weight zero (any number of zero-weight observations): weighted statistics are NaN
    let mut var = MeanWithError::new();
    let x: f64 = kani::any();
    kani::assume(x.abs() <= 1e30);
    var.add(x);
    let w = WeightedMeanWithError { weight_sum_sq: 0., weighted_avg: WeightedMean { weight_sum: 0., weighted_avg: kani::any() }, unweighted_avg: var };
    assert!(w.weighted_mean().is_nan() && w.variance_of_weighted_mean().is_nan() && w.error().is_nan());
    assert!(w.sum_weights() == 0. && w.len() == 1 && !w.is_empty() && w.unweighted_mean() == x);
}

// a zero-weight observation changes only the unweighted statistics and len (first position included)
#[kani::proof]
fn wme_zero_weight_frame() {
    let a0 = any_wm();
    let w2: f64 = kani::any();
    kani::assume(pos_zero_or_positive(w2));
    let mut a = WeightedMeanWithError { weight_sum_sq: w2, weighted_avg: a0.clone(), unweighted_avg: MeanWithError::new() };
    let x: f64 = kani::any();
    a.add(x, 0.);
    kani::cover!(a0.weight_sum == 0.);
    kani::cover!(a0.weight_sum > 0.);
    assert!(bits_eq(a.weight_sum_sq, w2));
    assert!(bits_eq(a.weighted_avg.weight_sum, a0.weight_sum));
    // value domain of the property: |x| <= 1e30 (then x - mean cannot overflow and 0 * (x - mean) is 0)
    if a0.weight_sum > 0. && a0.weighted_avg.abs() <= 1e30 && x.abs() <= 1e30 {
        assert!(a.weighted_avg.weighted_avg == a0.weighted_avg);
    }
    if a0.weight_sum == 0. {
        assert!(a.weighted_mean().is_nan());
    }
    assert!(a.len() == 1);
}

#[kani::proof]
fn wm_one_observation_exact() {
    let x: f64 = kani::any();
    kani::assume(x.abs() <= 1e30);
    // a full symbolic weight needs CBMC's divider for w / w (no answer in 40 min): four representative weights
    let sel: u8 = kani::any();
    let w = match sel & 3 { 0 => 0.5, 1 => 1.0, 2 => 2.0, _ => 3.0 };
    let mut a = WeightedMean::new();
    a.add(x, w);
    let mut b = WeightedMeanWithError::new();
    b.add(x, w);
    kani::cover!(true);
    assert!(a.mean() == x && a.sum_weights() == w);
    assert!(b.weighted_mean() == x && b.unweighted_mean() == x && b.sum_weights() == w && b.len() == 1);
    assert!(b.population_variance() == 0.);
}
