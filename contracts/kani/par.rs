// C19 wiring harnesses (bounded: <= 3 items, <= 3 contiguous chunks, both bracketings, optional identities).
// `rayon` here is the specification stub contracts/rayon_stub (A-RAYON made executable).
// For the moment types add and merge are replaced by a commutative multiset recorder (count + sum of the
// bit patterns): the collected estimator must have absorbed every item exactly once whatever the split
// and bracketing.  Min / Max run unstubbed and must give the exact sequential result.

use crate::{Estimate, Max, Mean, Merge, Min};
use rayon::iter::{FromParallelIterator, Refs, Vals};

fn any_input() -> ([f64; 3], usize) {
    let xs: [f64; 3] = kani::any();
    let len: usize = kani::any();
    kani::assume(len <= 3);
    (xs, len)
}

#[kani::proof]
#[kani::unwind(5)]
fn par_minmax_exact() {
    let (xs, len) = any_input();
    let mn = Min::from_par_iter(Vals { xs, len });
    let mx = Max::from_par_iter(Vals { xs, len });
    let mnr = Min::from_par_iter(Refs { xs: &xs, len });
    let mxr = Max::from_par_iter(Refs { xs: &xs, len });
    let mut smn = Min::new();
    let mut smx = Max::new();
    let mut i = 0;
    while i < len {
        smn.add(xs[i]);
        smx.add(xs[i]);
        i += 1;
    }
    kani::cover!(len == 3);
    kani::cover!(len == 0);
    assert!(mn.min() == smn.min() && mnr.min() == smn.min());
    assert!(mx.max() == smx.max() && mxr.max() == smx.max());
}
