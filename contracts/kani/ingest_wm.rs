// C20 ingestion glue for the pair estimators of src/weighted_mean.rs (recorder stubs, length <= 3).
// An iterator that promises nothing about its length (size_hint() is the default (0, None), no ExactSizeIterator,
// no DoubleEndedIterator): glue that consults size hints or iterates from the back must still ingest every item.
struct Opaque<I>(I);
impl<I: Iterator> Iterator for Opaque<I> {
    type Item = I::Item;
    fn next(&mut self) -> Option<I::Item> {
        self.0.next()
    }
}

fn rec2(n: u64, x: f64, w: f64) -> u64 {
    (n.rotate_left(1) ^ x.to_bits()).rotate_left(3) ^ w.to_bits() ^ 0x9e3779b97f4a7c15
}

fn rec_wm_add(s: &mut WeightedMean, x: f64, w: f64) {
    s.weight_sum = f64::from_bits(rec2(s.weight_sum.to_bits(), x, w) & 0x000f_ffff_ffff_ffff);
}

fn rec_wme_add(s: &mut WeightedMeanWithError, x: f64, w: f64) {
    s.weight_sum_sq = f64::from_bits(rec2(s.weight_sum_sq.to_bits(), x, w) & 0x000f_ffff_ffff_ffff);
}

fn b(a: f64, c: f64) -> bool {
    a.to_bits() == c.to_bits()
}

fn same_wm(a: &WeightedMean, c: &WeightedMean) -> bool {
    b(a.weight_sum, c.weight_sum) && b(a.weighted_avg, c.weighted_avg)
}

fn same_wme(a: &WeightedMeanWithError, c: &WeightedMeanWithError) -> bool {
    b(a.weight_sum_sq, c.weight_sum_sq) && same_wm(&a.weighted_avg, &c.weighted_avg)
        && a.unweighted_avg.len() == c.unweighted_avg.len()
}

macro_rules! pair_ingest {
    ($name:ident, $T:ident, $same:ident, $base:expr) => {
        fn $name() {
            let xs: [(f64, f64); 3] = kani::any();
            let l: usize = kani::any();
            let cut: usize = kani::any();
            kani::assume(l <= 3 && cut <= l);
            let s = &xs[..l];
            let mut a = $T::new();
            for &(x, w) in s {
                a.add(x, w);
            }
            let bv: $T = s.iter().cloned().collect();
            let br: $T = s.iter().collect();
            let bvo: $T = Opaque(s.iter().cloned()).collect();
            let bro: $T = Opaque(s.iter()).collect();
            kani::cover!(l == 3);
            assert!($same(&a, &bv) && $same(&a, &br));
            let base: $T = $base;
            let mut e0 = base.clone();
            for &(x, w) in s {
                e0.add(x, w);
            }
            let mut e1 = base.clone();
            e1.extend(s.iter().cloned());
            let mut e2 = base.clone();
            e2.extend(s.iter());
            let mut e3 = base.clone();
            e3.extend(Opaque(s[..cut].iter().cloned()));
            e3.extend(Opaque(s[cut..].iter()));
            assert!($same(&e1, &e0) && $same(&e2, &e0) && $same(&e3, &e0));
        }
    };
}

fn base_wm() -> WeightedMean {
    WeightedMean { weight_sum: f64::from_bits(kani::any::<u64>() & 0x000f_ffff_ffff_ffff), weighted_avg: kani::any() }
}

fn base_wme() -> WeightedMeanWithError {
    WeightedMeanWithError { weight_sum_sq: f64::from_bits(kani::any::<u64>() & 0x000f_ffff_ffff_ffff), weighted_avg: base_wm(), unweighted_avg: MeanWithError::new() }
}

pair_ingest!(wm_ingest_body, WeightedMean, same_wm, base_wm());
pair_ingest!(wme_ingest_body, WeightedMeanWithError, same_wme, base_wme());

#[kani::proof]
#[kani::unwind(5)]
#[kani::stub(WeightedMean::add, rec_wm_add)]
fn wm_ingest_glue() {
    wm_ingest_body();
}

#[kani::proof]
#[kani::unwind(5)]
#[kani::stub(WeightedMeanWithError::add, rec_wme_add)]
fn wme_ingest_glue() {
    wme_ingest_body();
}
