// C20 ingestion glue for Covariance (recorder stub on the count, length <= 3).
// An iterator that promises nothing about its length (size_hint() is the default (0, None), no ExactSizeIterator,
// no DoubleEndedIterator): glue that consults size hints or iterates from the back must still ingest every item.
struct Opaque<I>(I);
impl<I: Iterator> Iterator for Opaque<I> {
    type Item = I::Item;
    fn next(&mut self) -> Option<I::Item> {
        self.0.next()
    }
}

fn rec_cov_add(s: &mut Covariance, x: f64, y: f64) {
    s.n = (s.n.rotate_left(1) ^ x.to_bits()).rotate_left(3) ^ y.to_bits() ^ 0x9e3779b97f4a7c15;
}

fn same_cov(a: &Covariance, c: &Covariance) -> bool {
    let b = |p: f64, q: f64| p.to_bits() == q.to_bits();
    a.n == c.n && b(a.avg_x, c.avg_x) && b(a.avg_y, c.avg_y) && b(a.sum_x_2, c.sum_x_2) && b(a.sum_y_2, c.sum_y_2) && b(a.sum_prod, c.sum_prod)
}

#[kani::proof]
#[kani::unwind(5)]
#[kani::stub(Covariance::add, rec_cov_add)]
fn cov_ingest_glue() {
    let xs: [(f64, f64); 3] = kani::any();
    let l: usize = kani::any();
    let cut: usize = kani::any();
    kani::assume(l <= 3 && cut <= l);
    let s = &xs[..l];
    let mut a = Covariance::new();
    for &(x, y) in s {
        a.add(x, y);
    }
    let bv: Covariance = s.iter().cloned().collect();
    let br: Covariance = s.iter().collect();
    let bvo: Covariance = Opaque(s.iter().cloned()).collect();
    let bro: Covariance = Opaque(s.iter()).collect();
    kani::cover!(l == 3);
    assert!(same_cov(&a, &bv) && same_cov(&a, &br));
    assert!(same_cov(&a, &bvo) && same_cov(&a, &bro));
    let base = Covariance { avg_x: kani::any(), sum_x_2: kani::any(), avg_y: kani::any(), sum_y_2: kani::any(), sum_prod: kani::any(), n: kani::any() };
    let mut e0 = base.clone();
    for &(x, y) in s {
        e0.add(x, y);
    }
    let mut e1 = base.clone();
    e1.extend(s.iter().cloned());
    let mut e2 = base.clone();
    e2.extend(s.iter());
    let mut e3 = base.clone();
    e3.extend(Opaque(s[..cut].iter().cloned()));
    e3.extend(Opaque(s[cut..].iter()));
    assert!(same_cov(&e1, &e0) && same_cov(&e2, &e0) && same_cov(&e3, &e0));
}
