// Harnesses for src/covariance.rs (C11, C16, C17).  Included as `mod verif_kani` at the end of the file.

fn bits_eq(a: f64, b: f64) -> bool {
    a.to_bits() == b.to_bits()
}

// is_valid: n < 2^53; sum_x_2, sum_y_2 not < 0 (proved inductive below, C17)
fn any_cov() -> Covariance {
    let n: u64 = kani::any();
    kani::assume(n < (1u64 << 53));
    let c = Covariance { avg_x: kani::any(), sum_x_2: kani::any(), avg_y: kani::any(), sum_y_2: kani::any(), sum_prod: kani::any(), n };
    kani::assume(!(c.sum_x_2 < 0.) && !(c.sum_y_2 < 0.));
    c
}

fn eq_cov(a: &Covariance, b: &Covariance) -> bool {
    a.n == b.n && (a.n == 0 || (bits_eq(a.avg_x, b.avg_x) && bits_eq(a.avg_y, b.avg_y) && bits_eq(a.sum_x_2, b.sum_x_2)
        && bits_eq(a.sum_y_2, b.sum_y_2) && bits_eq(a.sum_prod, b.sum_prod)))
}

#[kani::proof]
fn cov_merge_empty_right() {
    let a = any_cov();
    let mut m = a.clone();
    m.merge(&Covariance::new());
    kani::cover!(a.len() > 0);
    assert!(eq_cov(&m, &a) && m.len() == a.len());
}

#[kani::proof]
fn cov_merge_empty_left() {
    let a = any_cov();
    let mut e = Covariance::new();
    e.merge(&a);
    let mut d = Covariance::default();
    d.merge(&a);
    kani::cover!(a.len() > 0);
    assert!(eq_cov(&e, &a) && eq_cov(&d, &a) && e.len() == a.len());
}

#[kani::proof]
fn cov_len_adds() {
    let a = any_cov();
    let b = any_cov();
    let b0 = b.clone();
    let mut m = a.clone();
    m.merge(&b);
    kani::cover!(a.len() > 0 && b.len() > 0);
    assert!(m.len() == a.len() + b.len());
    assert!(m.is_empty() == (m.len() == 0) && a.is_empty() == (a.len() == 0));
    assert!(eq_cov(&b, &b0));
}

// C17: the x / y sums of squares never become negative
#[kani::proof]
fn cov_nonneg_add() {
    let mut c = any_cov();
    let (x, y): (f64, f64) = (kani::any(), kani::any());
    c.add(x, y);
    kani::cover!(true);
    assert!(!(c.sum_x_2 < 0.) && !(c.sum_y_2 < 0.));
}

#[kani::proof]
fn cov_nonneg_merge() {
    let mut a = any_cov();
    let b = any_cov();
    a.merge(&b);
    kani::cover!(true);
    assert!(!(a.sum_x_2 < 0.) && !(a.sum_y_2 < 0.));
}

#[kani::proof]
fn cov_accessors_not_negative() {
    let c = any_cov();
    kani::cover!(c.len() >= 2);
    assert!(!(c.population_variance_x() < 0.) && !(c.population_variance_y() < 0.));
    assert!(!(c.sample_variance_x() < 0.) && !(c.sample_variance_y() < 0.));
    let z = Covariance::new();
    assert!(z.sum_x_2 == 0. && z.sum_y_2 == 0. && z.n == 0);
}

// C16: sentinels by sample size
#[kani::proof]
fn cov_sentinels() {
    let mut c = any_cov();
    let n: u64 = kani::any();
    kani::assume(n <= 2);
    c.n = n;
    kani::cover!(n == 0);
    kani::cover!(n == 1);
    kani::cover!(n == 2);
    if n == 0 {
        assert!(c.mean_x().is_nan() && c.mean_y().is_nan() && c.population_covariance().is_nan());
        assert!(c.population_variance_x().is_nan() && c.population_variance_y().is_nan() && c.is_empty());
    }
    if n < 2 {
        assert!(c.sample_covariance().is_nan() && c.pearson().is_nan());
        assert!(c.sample_variance_x().is_nan() && c.sample_variance_y().is_nan());
    }
    if n >= 1 {
        assert!(bits_eq(c.mean_x(), c.avg_x) && bits_eq(c.mean_y(), c.avg_y) && !c.is_empty());
    }
    assert!(c.len() == n);
}

#[kani::proof]
fn cov_one_observation_exact() {
    let (x, y): (f64, f64) = (kani::any(), kani::any());
    kani::assume(x.abs() <= 1e30 && y.abs() <= 1e30);
    let mut c = Covariance::new();
    c.add(x, y);
    kani::cover!(true);
    assert!(c.mean_x() == x && c.mean_y() == y && c.len() == 1);
    assert!(c.population_variance_x() == 0. && c.population_variance_y() == 0. && c.population_covariance() == 0.);
}

#[kani::proof]
fn cov_constant_stream_step() {
    let (x, y): (f64, f64) = (kani::any(), kani::any());
    let n: u64 = kani::any();
    kani::assume(x.abs() <= 1e30 && y.abs() <= 1e30 && n >= 1 && n < (1u64 << 53) - 1);
    let mut c = Covariance { avg_x: x, sum_x_2: 0., avg_y: y, sum_y_2: 0., sum_prod: 0., n };
    c.add(x, y);
    kani::cover!(true);
    assert!(c.avg_x == x && c.avg_y == y && c.sum_x_2 == 0. && c.sum_y_2 == 0. && c.sum_prod == 0. && c.n == n + 1);
}
