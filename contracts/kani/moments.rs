// Harnesses for the moment family (C11, C16, C17, C20): Mean, Variance, Skewness, Kurtosis.
// Included as `mod verif_kani` at the end of src/moments/mod.rs, so the private fields are the real ones.

fn bits_eq(a: f64, b: f64) -> bool {
    a.to_bits() == b.to_bits()
}

// ---- arbitrary states under is_valid() -------------------------------------------------------
// is_valid: n < 2^53 (A-INT); Variance.sum_2 is not < 0 (proved inductive in C17).
fn any_mean() -> Mean {
    let n: u64 = kani::any();
    kani::assume(n < (1u64 << 53));
    Mean { avg: kani::any(), n }
}

fn any_variance() -> Variance {
    let v = Variance { avg: any_mean(), sum_2: kani::any() };
    kani::assume(!(v.sum_2 < 0.));
    v
}

fn any_skewness() -> Skewness {
    Skewness { avg: any_variance(), sum_3: kani::any() }
}

fn any_kurtosis() -> Kurtosis {
    Kurtosis { avg: any_skewness(), sum_4: kani::any() }
}

// observable state: the count always; every other field whenever some accessor can read it (n >= 1)
fn eq_mean(a: &Mean, b: &Mean) -> bool {
    a.n == b.n && (a.n == 0 || bits_eq(a.avg, b.avg))
}

fn eq_variance(a: &Variance, b: &Variance) -> bool {
    eq_mean(&a.avg, &b.avg) && (a.avg.n == 0 || bits_eq(a.sum_2, b.sum_2))
}

fn eq_skewness(a: &Skewness, b: &Skewness) -> bool {
    eq_variance(&a.avg, &b.avg) && (a.avg.avg.n == 0 || bits_eq(a.sum_3, b.sum_3))
}

fn eq_kurtosis(a: &Kurtosis, b: &Kurtosis) -> bool {
    eq_skewness(&a.avg, &b.avg) && (a.avg.avg.avg.n == 0 || bits_eq(a.sum_4, b.sum_4))
}

// ---- C11: the empty estimator is an exact identity of merge; lengths add exactly -----------------
macro_rules! c11_harnesses {
    ($T:ident, $any:ident, $eq:ident, $right:ident, $left:ident, $lens:ident) => {
        #[kani::proof]
        fn $right() {
            let a = $any();
            let mut m = a.clone();
            m.merge(&$T::new());
            kani::cover!(a.len() > 0);
            kani::cover!(a.len() == 0);
            assert!($eq(&m, &a));
            assert!(m.len() == a.len());
            assert!(bits_eq(m.mean(), a.mean()) || (m.mean().is_nan() && a.mean().is_nan()));
        }

        #[kani::proof]
        fn $left() {
            let a = $any();
            let mut e = $T::new();
            e.merge(&a);
            kani::cover!(a.len() > 0);
            assert!($eq(&e, &a));
            assert!(e.len() == a.len());
            let mut d = $T::default();
            d.merge(&a);
            assert!($eq(&d, &a));
        }

        #[kani::proof]
        fn $lens() {
            let a = $any();
            let b = $any();
            let b0 = b.clone();
            let mut m = a.clone();
            m.merge(&b);
            kani::cover!(a.len() > 0 && b.len() > 0);
            assert!(m.len() == a.len() + b.len());
            assert!(m.is_empty() == (m.len() == 0));
            assert!(a.is_empty() == (a.len() == 0));
            assert!($eq(&b, &b0));
        }
    };
}

c11_harnesses!(Mean, any_mean, eq_mean, mean_merge_empty_right, mean_merge_empty_left, mean_len_adds);
c11_harnesses!(Variance, any_variance, eq_variance, variance_merge_empty_right, variance_merge_empty_left, variance_len_adds);
c11_harnesses!(Skewness, any_skewness, eq_skewness, skewness_merge_empty_right, skewness_merge_empty_left, skewness_len_adds);
c11_harnesses!(Kurtosis, any_kurtosis, eq_kurtosis, kurtosis_merge_empty_right, kurtosis_merge_empty_left, kurtosis_len_adds);

// ---- C17: sum_2 never becomes negative (inductive step for add and merge, all f64) ----------------
#[kani::proof]
fn variance_nonneg_add() {
    let mut v = any_variance();
    let x: f64 = kani::any();
    v.add(x);
    kani::cover!(true);
    assert!(!(v.sum_2 < 0.));
}

#[kani::proof]
fn variance_nonneg_merge() {
    let mut a = any_variance();
    let b = any_variance();
    a.merge(&b);
    kani::cover!(true);
    assert!(!(a.sum_2 < 0.));
}

#[kani::proof]
fn variance_nonneg_new() {
    let v = Variance::new();
    kani::cover!(true);
    assert!(v.sum_2 == 0. && v.avg.n == 0);
    assert!(Variance::default().sum_2 == 0.);
}

// the variance accessors of a valid state are never negative, so error() is never the root of a
// negative number (it is NaN only when its argument is NaN)
#[kani::proof]
fn variance_accessors_not_negative() {
    let v = any_variance();
    kani::cover!(v.len() >= 2);
    assert!(!(v.population_variance() < 0.));
    assert!(!(v.sample_variance() < 0.));
    assert!(!(v.variance_of_mean() < 0.));
}

// Skewness / Kurtosis embed a Variance; their add/merge must keep its invariant too.
#[kani::proof]
fn skewness_nonneg_add() {
    let mut s = any_skewness();
    let x: f64 = kani::any();
    s.add(x);
    kani::cover!(true);
    assert!(!(s.avg.sum_2 < 0.));
}

#[kani::proof]
fn kurtosis_nonneg_add() {
    let mut s = any_kurtosis();
    let x: f64 = kani::any();
    s.add(x);
    kani::cover!(true);
    assert!(!(s.avg.avg.sum_2 < 0.));
}

#[kani::proof]
fn kurtosis_nonneg_merge() {
    let mut a = any_kurtosis();
    let b = any_kurtosis();
    a.merge(&b);
    kani::cover!(true);
    assert!(!(a.avg.avg.sum_2 < 0.));
}

// ---- C16: sentinels for sample sizes 0..4, one observation, constant streams ------------------------
fn with_n_mean(n: u64) -> Mean {
    Mean { avg: kani::any(), n }
}

fn with_n_kurtosis(n: u64) -> Kurtosis {
    let k = Kurtosis {
        avg: Skewness { avg: Variance { avg: with_n_mean(n), sum_2: kani::any() }, sum_3: kani::any() },
        sum_4: kani::any(),
    };
    kani::assume(!(k.avg.avg.sum_2 < 0.));
    k
}

#[kani::proof]
fn sentinels_empty() {
    let k = with_n_kurtosis(0);
    kani::cover!(true);
    assert!(k.mean().is_nan() && k.population_variance().is_nan() && k.sample_variance().is_nan());
    assert!(k.error_mean().is_nan() && k.skewness().is_nan() && k.kurtosis().is_nan() && k.estimate().is_nan());
    assert!(k.len() == 0 && k.is_empty());
    let s = &k.avg;
    assert!(s.mean().is_nan() && s.population_variance().is_nan() && s.sample_variance().is_nan());
    assert!(s.error_mean().is_nan() && s.skewness().is_nan() && s.estimate().is_nan() && s.len() == 0 && s.is_empty());
    let v = &k.avg.avg;
    assert!(v.mean().is_nan() && v.population_variance().is_nan() && v.sample_variance().is_nan());
    assert!(v.variance_of_mean().is_nan() && v.error().is_nan() && v.estimate().is_nan() && v.len() == 0 && v.is_empty());
    let m = &k.avg.avg.avg;
    assert!(m.mean().is_nan() && m.estimate().is_nan() && m.len() == 0 && m.is_empty());
}

#[kani::proof]
fn sentinels_one() {
    let k = with_n_kurtosis(1);
    kani::cover!(true);
    assert!(k.sample_variance().is_nan() && k.avg.sample_variance().is_nan() && k.avg.avg.sample_variance().is_nan());
    assert!(k.avg.avg.variance_of_mean() == 0. && k.avg.avg.error() == 0.);
    assert!(k.len() == 1 && !k.is_empty());
    assert!(bits_eq(k.mean(), k.avg.avg.avg.avg));
}

#[kani::proof]
fn sentinels_two_plus() {
    let n: u64 = kani::any();
    kani::assume(n >= 2 && n < (1u64 << 53));
    let k = with_n_kurtosis(n);
    kani::assume(!k.avg.avg.sum_2.is_nan());
    kani::cover!(true);
    assert!(!k.sample_variance().is_nan() && !k.population_variance().is_nan() && !k.avg.avg.variance_of_mean().is_nan());
    assert!(k.len() == n && !k.is_empty());
}

// one observation x (|x| <= 1e30): mean is exactly x; variance, error, skewness, kurtosis exactly 0
#[kani::proof]
fn one_observation_exact() {
    let x: f64 = kani::any();
    kani::assume(x.abs() <= 1e30);
    let mut k = Kurtosis::new();
    k.add(x);
    let mut s = Skewness::new();
    s.add(x);
    let mut v = Variance::new();
    v.add(x);
    let mut m = Mean::new();
    m.add(x);
    kani::cover!(true);
    assert!(m.mean() == x && v.mean() == x && s.mean() == x && k.mean() == x);
    assert!(v.population_variance() == 0. && v.variance_of_mean() == 0. && v.error() == 0.);
    assert!(s.population_variance() == 0. && s.skewness() == 0. && s.error_mean() == 0.);
    assert!(k.population_variance() == 0. && k.skewness() == 0. && k.kurtosis() == 0. && k.error_mean() == 0.);
    assert!(k.len() == 1 && s.len() == 1 && v.len() == 1 && m.len() == 1);
}

// constant streams of any length: the state "n >= 1 copies of x" (avg == x, every sum == 0) is
// preserved bit-exactly by add(x); with one_observation_exact this is an induction over the stream.
#[kani::proof]
fn constant_stream_step() {
    let x: f64 = kani::any();
    let n: u64 = kani::any();
    kani::assume(x.abs() <= 1e30);
    kani::assume(n >= 1 && n < (1u64 << 53) - 1);
    let mut k = Kurtosis {
        avg: Skewness { avg: Variance { avg: Mean { avg: x, n }, sum_2: 0. }, sum_3: 0. },
        sum_4: 0.,
    };
    k.add(x);
    kani::cover!(true);
    assert!(k.avg.avg.avg.avg == x && k.avg.avg.avg.n == n + 1);
    assert!(k.avg.avg.sum_2 == 0. && k.avg.sum_3 == 0. && k.sum_4 == 0.);
    assert!(k.mean() == x && k.population_variance() == 0. && k.skewness() == 0. && k.kurtosis() == 0.);
    assert!(k.avg.avg.variance_of_mean() == 0. && k.avg.avg.error() == 0.);
}

#[kani::proof]
fn constant_stream_step_lower() {
    let x: f64 = kani::any();
    let n: u64 = kani::any();
    kani::assume(x.abs() <= 1e30);
    kani::assume(n >= 1 && n < (1u64 << 53) - 1);
    let mut s = Skewness { avg: Variance { avg: Mean { avg: x, n }, sum_2: 0. }, sum_3: 0. };
    s.add(x);
    let mut v = Variance { avg: Mean { avg: x, n }, sum_2: 0. };
    v.add(x);
    let mut m = Mean { avg: x, n };
    m.add(x);
    kani::cover!(true);
    assert!(s.avg.avg.avg == x && s.avg.sum_2 == 0. && s.sum_3 == 0. && s.len() == n + 1);
    assert!(v.avg.avg == x && v.sum_2 == 0. && v.len() == n + 1);
    assert!(m.avg == x && m.len() == n + 1);
}

// ---- C20: estimate() is the headline statistic, bit for bit ----------------------------------------
#[kani::proof]
fn estimate_forwards() {
    let k = any_kurtosis();
    kani::cover!(true);
    let same = |a: f64, b: f64| bits_eq(a, b) || (a.is_nan() && b.is_nan());
    assert!(same(k.avg.avg.avg.estimate(), k.avg.avg.avg.mean()));
    assert!(same(k.avg.avg.estimate(), k.avg.avg.population_variance()));
}
