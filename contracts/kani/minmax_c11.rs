// C11 for Min / Max: merging a freshly constructed estimator is the identity, bit for bit as a number.
#[kani::proof]
fn minmax_merge_empty_identity() {
    let a: f64 = kani::any();
    kani::assume(!a.is_nan());
    let mut m = Min { x: a };
    m.merge(&Min::new());
    let mut e = Min::new();
    e.merge(&Min { x: a });
    let mut mx = Max { x: a };
    mx.merge(&Max::new());
    let mut ex = Max::new();
    ex.merge(&Max { x: a });
    kani::cover!(true);
    assert!(m.min().to_bits() == a.to_bits() && e.min().to_bits() == a.to_bits());
    assert!(mx.max().to_bits() == a.to_bits() && ex.max().to_bits() == a.to_bits());
    let mut d = Min::default();
    d.merge(&Min { x: a });
    assert!(d.min().to_bits() == a.to_bits());
}
