// helpers for contracts/kani/concat.rs that need Variance's private fields (module moments)
pub fn any_variance_state() -> Variance {
    Variance { avg: Mean { avg: kani::any(), n: kani::any() }, sum_2: kani::any() }
}

pub fn variance_with_n(s: &Variance, n: u64) -> Variance {
    Variance { avg: Mean { avg: s.avg.avg, n }, sum_2: s.sum_2 }
}

pub fn same_variance_state(a: &Variance, c: &Variance) -> bool {
    a.avg.n == c.avg.n && a.avg.avg.to_bits() == c.avg.avg.to_bits() && a.sum_2.to_bits() == c.sum_2.to_bits()
}
