// Modular harnesses for the histogram (C06): only included by the job that also splices the function contract
// above `find` (a stub_verified target without a contract does not compile).
use super::verif_kani::{any_hist, find_post, valid_edges};
use crate::SampleOutOfRangeError;

#[kani::proof_for_contract(Histogram::find)]
fn find_contract() {
    let h = any_hist();
    let x: f64 = kani::any();
    let _ = h.find(x);
    kani::cover!(true);
}

#[kani::proof]
#[kani::stub_verified(Histogram::find)]
fn add_via_find_contract() {
    let mut h = any_hist();
    let old = h.bin;
    let x: f64 = kani::any();
    let r = h.add(x);
    kani::cover!(r.is_ok());
    kani::cover!(r.is_err());
    let in_range = h.range[0] <= x && x < h.range[LEN];
    assert!(r.is_ok() == in_range);
    let mut changed = 0;
    let mut j = 0;
    while j < LEN {
        if h.bin[j] != old[j] {
            changed += 1;
            assert!(h.bin[j] == old[j] + 1);
            assert!(h.range[j] <= x && x < h.range[j + 1]);
        }
        j += 1;
    }
    assert!(changed == if in_range { 1 } else { 0 });
}
