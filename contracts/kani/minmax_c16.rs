// C16 for Min / Max: sentinels of the empty estimator, one observation.
#[kani::proof]
fn minmax_sentinels() {
    kani::cover!(true);
    assert!(Min::new().min() == f64::INFINITY && Max::new().max() == f64::NEG_INFINITY);
    assert!(Min::default().min() == f64::INFINITY && Max::default().max() == f64::NEG_INFINITY);
    let x: f64 = kani::any();
    kani::assume(!x.is_nan());
    let mut a = Min::new();
    a.add(x);
    let mut b = Max::new();
    b.add(x);
    assert!(a.min() == x && b.max() == x);
    a.add(x);
    b.add(x);
    assert!(a.min() == x && b.max() == x);
}
