// Harnesses for the macro-generated histogram module (C06, C11, C12, C13).
// Included as `mod verif_kani` INSIDE the body of `define_histogram_common!`, i.e. inside every
// `mod $name { .. }` the crate's own macro generates, so `Histogram`, `LEN` and the private fields
// `range` / `bin` are the real ones.  One instantiation per LEN (see props/*.py).

use crate::{Histogram as HistTrait, Merge};
// InvalidRangeError / SampleOutOfRangeError are imported by the including wrapper (crate:: for the macro version,
// the module's own types for histogram_const.rs)

// is_valid(): exactly what from_ranges accepts (C12 proves that equivalence): no NaN, non-decreasing.
pub fn valid_edges(r: &[f64; LEN + 1]) -> bool {
    let mut ok = true;
    let mut i = 0;
    while i < LEN + 1 {
        if r[i].is_nan() { ok = false; }
        if i > 0 && r[i - 1] > r[i] { ok = false; }
        i += 1;
    }
    ok
}

pub fn any_hist() -> Histogram {
    let range: [f64; LEN + 1] = kani::any();
    let bin: [u64; LEN] = kani::any();
    kani::assume(valid_edges(&range));
    let mut i = 0;
    while i < LEN {
        kani::assume(bin[i] < (1u64 << 40)); // no u64 overflow of counts (A-INT)
        i += 1;
    }
    Histogram { range, bin }
}

fn same_bits(a: &[f64; LEN + 1], b: &[f64; LEN + 1]) -> bool {
    let mut ok = true;
    let mut i = 0;
    while i < LEN + 1 {
        if a[i].to_bits() != b[i].to_bits() { ok = false; }
        i += 1;
    }
    ok
}

// (array `==` compiles to a byte-wise memcmp loop; compare element-wise to keep unwind bounds small)
fn same_bins(a: &[u64; LEN], b: &[u64; LEN]) -> bool {
    let mut ok = true;
    let mut i = 0;
    while i < LEN {
        if a[i] != b[i] { ok = false; }
        i += 1;
    }
    ok
}

// ---------------------------------------------------------------- C06
// find(x) is Ok exactly when range_min() <= x < range_max(), and then returns THE bin with
// lower_i <= x < upper_i (so zero-width bins are never selected).  x: every non-NaN f64.
#[kani::proof]
fn find_iff_bin() {
    let h = any_hist();
    let x: f64 = kani::any();
    kani::assume(!x.is_nan());
    let in_range = h.range_min() <= x && x < h.range_max();
    assert!(h.range_min().to_bits() == h.range[0].to_bits());
    assert!(h.range_max().to_bits() == h.range[LEN].to_bits());
    let r = h.find(x);
    kani::cover!(r.is_ok());
    kani::cover!(r.is_err());
    match r {
        Ok(i) => {
            assert!(in_range);
            assert!(i < LEN);
            assert!(h.range[i] <= x && x < h.range[i + 1]);
            // uniqueness: no other bin contains x
            let mut j = 0;
            while j < LEN {
                if j != i { assert!(!(h.range[j] <= x && x < h.range[j + 1])); }
                j += 1;
            }
        }
        Err(_) => assert!(!in_range),
    }
}

// NaN is out of range: Err, no panic.
#[kani::proof]
fn find_add_nan_is_error() {
    let mut h = any_hist();
    let old = h.bin;
    let x: f64 = kani::any();
    kani::assume(x.is_nan());
    kani::cover!(true);
    assert!(h.find(x).is_err());
    assert!(h.add(x).is_err());
    assert!(same_bins(&h.bin, &old));
}

// add(x): Ok iff find is Ok; then exactly that bin +1, every other count unchanged; on Err all
// counts unchanged; edges never change; total +1 / +0.
#[kani::proof]
fn add_count_frame_total() {
    let mut h = any_hist();
    let old_bin = h.bin;
    let old_range = h.range;
    let x: f64 = kani::any();
    kani::assume(!x.is_nan());
    let f = h.find(x);
    let r = h.add(x);
    kani::cover!(r.is_ok());
    kani::cover!(r.is_err());
    assert!(same_bits(&h.range, &old_range));
    let mut total_old: u64 = 0;
    let mut total_new: u64 = 0;
    let mut j = 0;
    while j < LEN {
        total_old += old_bin[j];
        total_new += h.bin[j];
        match f {
            Ok(i) if i == j => assert!(r.is_ok() && h.bin[j] == old_bin[j] + 1),
            _ => assert!(h.bin[j] == old_bin[j]),
        }
        j += 1;
    }
    match f {
        Ok(_) => assert!(r.is_ok() && total_new == total_old + 1),
        Err(_) => assert!(r.is_err() && total_new == total_old),
    }
    // bins() and ranges() are views of exactly this state
    assert!(h.bins().len() == LEN && h.ranges().len() == LEN + 1);
    let mut j = 0;
    while j < LEN {
        assert!(h.bins()[j] == h.bin[j]);
        assert!(h.ranges()[j].to_bits() == h.range[j].to_bits());
        j += 1;
    }
}

// ---------------------------------------------------------------- C12
// from_ranges against the oracle written from the property statement.  Input: LEN+3 arbitrary f64
// (every bit pattern) and an arbitrary length L <= LEN+3.
#[kani::proof]
fn from_ranges_oracle() {
    let vals: [f64; LEN + 3] = kani::any();
    let l: usize = kani::any();
    kani::assume(l <= LEN + 3);
    // oracle: first offending position among the first min(L, LEN+1) values
    let mut expect: Result<(), InvalidRangeError> = Ok(());
    let mut i = 0;
    let mut decided = false;
    while i < LEN + 1 {
        if !decided && i < l {
            if vals[i].is_nan() {
                expect = Err(InvalidRangeError::NaN);
                decided = true;
            } else if i > 0 && vals[i - 1] > vals[i] {
                expect = Err(InvalidRangeError::NotSorted);
                decided = true;
            }
        }
        i += 1;
    }
    if !decided && l < LEN + 1 {
        expect = Err(InvalidRangeError::NotEnoughRanges);
    }
    let r = Histogram::from_ranges(vals[..l].iter().cloned());
    kani::cover!(r.is_ok());
    kani::cover!(matches!(r, Err(InvalidRangeError::NaN)));
    kani::cover!(matches!(r, Err(InvalidRangeError::NotSorted)));
    kani::cover!(matches!(r, Err(InvalidRangeError::NotEnoughRanges)));
    match r {
        Ok(h) => {
            assert!(expect.is_ok());
            let mut j = 0;
            while j < LEN + 1 {
                assert!(h.ranges()[j].to_bits() == vals[j].to_bits());
                j += 1;
            }
            let mut j = 0;
            while j < LEN {
                assert!(h.bins()[j] == 0);
                j += 1;
            }
            assert!(valid_edges(&h.range));
        }
        Err(e) => assert!(expect == Err(e)),
    }
}

// with_const_width(start, end), finite start < end within 30 orders of magnitude: edges
// non-decreasing, no NaN, first edge exactly start, counts zero (bit-precise part of C12).
#[kani::proof]
fn const_width_monotone_first() {
    let start: f64 = kani::any();
    let end: f64 = kani::any();
    kani::assume(start.is_finite() && end.is_finite() && start < end);
    kani::assume(start.abs() <= 1e30 && end.abs() <= 1e30);
    let h = Histogram::with_const_width(start, end);
    kani::cover!(true);
    assert!(h.range[0] == start);
    assert!(valid_edges(&h.range));
    let mut j = 0;
    while j < LEN {
        assert!(h.bin[j] == 0);
        j += 1;
    }
}

// ---------------------------------------------------------------- C13 / C11
fn any_hist_pair_same_edges() -> (Histogram, Histogram) {
    let a = any_hist();
    let bin: [u64; LEN] = kani::any();
    let mut i = 0;
    while i < LEN {
        kani::assume(bin[i] < (1u64 << 40));
        i += 1;
    }
    let b = Histogram { range: a.range, bin };
    (a, b)
}

#[kani::proof]
fn merge_and_add_assign_binwise() {
    let (a, b) = any_hist_pair_same_edges();
    let mut m = a.clone();
    m.merge(&b);
    let mut p = a.clone();
    p += &b;
    kani::cover!(true);
    assert!(same_bits(&m.range, &a.range) && same_bits(&p.range, &a.range));
    assert!(same_bits(&b.range, &a.range));
    let mut j = 0;
    while j < LEN {
        assert!(m.bin[j] == a.bin[j] + b.bin[j]);
        assert!(p.bin[j] == m.bin[j]);
        j += 1;
    }
}

// merge commutes at the state level (the total bin count of the merged histogram is the sum of the
// totals by integer arithmetic from the bin-wise contract above).
#[kani::proof]
fn merge_commutes() {
    let (a, b) = any_hist_pair_same_edges();
    let mut m = a.clone();
    m.merge(&b);
    let mut q = b.clone();
    q.merge(&a);
    kani::cover!(true);
    assert!(same_bins(&q.bin, &m.bin));
    assert!(same_bits(&q.range, &m.range));
}

// C11: the freshly constructed histogram (same edges, zero counts) is an exact identity of merge.
#[kani::proof]
fn merge_empty_identity() {
    let a = any_hist();
    let e = Histogram { range: a.range, bin: [0; LEN] };
    let mut l = a.clone();
    l.merge(&e);
    let mut r = e.clone();
    r.merge(&a);
    kani::cover!(true);
    assert!(same_bins(&l.bin, &a.bin) && same_bins(&r.bin, &a.bin));
    assert!(same_bits(&l.range, &a.range) && same_bits(&r.range, &a.range));
    // reset() yields exactly that empty histogram
    let mut z = a.clone();
    z.reset();
    assert!(same_bins(&z.bin, &[0; LEN]) && same_bits(&z.range, &a.range));
}

// Different edges: merge and += must panic (the statement after the call is unreachable).
#[kani::proof]
fn merge_mismatch_panics() {
    let mut a = any_hist();
    let b = any_hist();
    let mut differ = false;
    let mut i = 0;
    while i < LEN + 1 {
        if a.range[i] != b.range[i] { differ = true; }
        i += 1;
    }
    kani::assume(differ);
    kani::cover!(true);
    a.merge(&b);
    kani::cover!(true, "UNREACHABLE: merge returned although the edges differ");
}

#[kani::proof]
fn add_assign_mismatch_panics() {
    let mut a = any_hist();
    let b = any_hist();
    let mut differ = false;
    let mut i = 0;
    while i < LEN + 1 {
        if a.range[i] != b.range[i] { differ = true; }
        i += 1;
    }
    kani::assume(differ);
    kani::cover!(true);
    a += &b;
    kani::cover!(true, "UNREACHABLE: += returned although the edges differ");
}

#[kani::proof]
fn mul_assign_binwise() {
    let a = any_hist();
    let k: u64 = kani::any();
    kani::assume(k < (1u64 << 20));
    let mut m = a.clone();
    m *= k;
    kani::cover!(true);
    assert!(same_bits(&m.range, &a.range));
    let mut j = 0;
    while j < LEN {
        assert!(m.bin[j] == a.bin[j] * k);
        j += 1;
    }
}

// iteration: exactly LEN items ((lower, upper), count) in edge order, from iter() and from
// IntoIterator for &Histogram alike.
#[kani::proof]
fn iter_items() {
    let h = any_hist();
    let mut it = h.iter();
    let mut it2 = (&h).into_iter();
    let mut j = 0;
    kani::cover!(true);
    while j < LEN {
        let ((lo, hi), cnt) = it.next().unwrap();
        let ((lo2, hi2), cnt2) = it2.next().unwrap();
        assert!(lo.to_bits() == h.range[j].to_bits() && hi.to_bits() == h.range[j + 1].to_bits() && cnt == h.bin[j]);
        assert!(lo2.to_bits() == lo.to_bits() && hi2.to_bits() == hi.to_bits() && cnt2 == cnt);
        j += 1;
    }
    assert!(it.next().is_none() && it2.next().is_none());
}

// The float-valued views (widths, centers, normalized_bins, variance, variances) are decided by RS
// under exact-real semantics (props/c13.py): comparing two bit-blasted float computations took CBMC
// more than 100 s per view even for LEN = 1.


// ---------------------------------------------------------------- modular: add from the CONTRACT of find
// find carries a Kani function contract (attributes spliced above it, see props/c06.py):
//   requires valid_edges(range);  ensures Ok(i) => i < LEN && range[i] <= x < range[i+1],  Err => !(range[0] <= x < range[LEN])
// proved by proof_for_contract per LEN, and used here through stub_verified: add is then proved for any LEN without
// executing the binary search again.
// (impl kani::Arbitrary for SampleOutOfRangeError is appended once to the defining file by the job: stub_verified
// havocs the Result returned by find)
pub fn find_post(range: &[f64; LEN + 1], x: f64, r: &Result<usize, SampleOutOfRangeError>) -> bool {
    match r {
        Ok(i) => *i < LEN && range[*i] <= x && x < range[*i + 1],
        Err(_) => !(range[0] <= x && x < range[LEN]),
    }
}
