// Harnesses for C14 (Min / Max).  Included as `mod verif_kani` at the end of src/minmax.rs of the
// scratch copy; the function contracts themselves are attributes spliced above
// `<Min as Estimate>::add` and `<Max as Estimate>::add` (see props/c14.py).
//
// The contract relation (written once, used by the attribute and by the lemmas):
//   min_rel(a, x, r): a is not NaN; if x is NaN then r == a, else r <= a, r <= x and r is one of them;
//   r is not NaN.  `==` on f64 is numeric equality, so +0.0 and -0.0 are the same number.

pub fn min_rel(a: f64, x: f64, r: f64) -> bool {
    !r.is_nan() && if x.is_nan() { r == a } else { r <= a && r <= x && (r == a || r == x) }
}

pub fn max_rel(a: f64, x: f64, r: f64) -> bool {
    !r.is_nan() && if x.is_nan() { r == a } else { r >= a && r >= x && (r == a || r == x) }
}

// stub_verified havocs `*self` through kani::Arbitrary (modifies(self)).
impl kani::Arbitrary for Min {
    fn any() -> Self {
        Min { x: kani::any() }
    }
}

impl kani::Arbitrary for Max {
    fn any() -> Self {
        Max { x: kani::any() }
    }
}

#[kani::proof_for_contract(<Min as Estimate>::add)]
fn min_add_contract() {
    let mut m = Min { x: kani::any() };
    let x: f64 = kani::any();
    m.add(x);
    kani::cover!(true);
}

#[kani::proof_for_contract(<Max as Estimate>::add)]
fn max_add_contract() {
    let mut m = Max { x: kani::any() };
    let x: f64 = kani::any();
    m.add(x);
    kani::cover!(true);
}

// merge is proved against the same relation using only add's contract (stub_verified).
#[kani::proof]
#[kani::stub_verified(<Min as Estimate>::add)]
fn min_merge_via_contract() {
    let a: f64 = kani::any();
    let b: f64 = kani::any();
    kani::assume(!a.is_nan() && !b.is_nan());
    let mut m = Min { x: a };
    let o = Min { x: b };
    m.merge(&o);
    kani::cover!(true);
    assert!(min_rel(a, b, m.x));
    assert!(o.x.to_bits() == b.to_bits());
}

#[kani::proof]
#[kani::stub_verified(<Max as Estimate>::add)]
fn max_merge_via_contract() {
    let a: f64 = kani::any();
    let b: f64 = kani::any();
    kani::assume(!a.is_nan() && !b.is_nan());
    let mut m = Max { x: a };
    let o = Max { x: b };
    m.merge(&o);
    kani::cover!(true);
    assert!(max_rel(a, b, m.x));
    assert!(o.x.to_bits() == b.to_bits());
}

#[kani::proof]
fn min_new_from_value_accessor() {
    let v: f64 = kani::any();
    assert!(Min::new().x == f64::INFINITY);
    assert!(Min::default().x == f64::INFINITY);
    assert!(Min::from_value(v).x.to_bits() == v.to_bits());
    assert!(Min { x: v }.min().to_bits() == v.to_bits());
    assert!(Min { x: v }.estimate().to_bits() == v.to_bits());
    // from_value(v) behaves as new() followed by add(v) for non-NaN v
    kani::assume(!v.is_nan());
    let mut e = Min::new();
    e.add(v);
    kani::cover!(true);
    assert!(e.x == v);
}

#[kani::proof]
fn max_new_from_value_accessor() {
    let v: f64 = kani::any();
    assert!(Max::new().x == f64::NEG_INFINITY);
    assert!(Max::default().x == f64::NEG_INFINITY);
    assert!(Max::from_value(v).x.to_bits() == v.to_bits());
    assert!(Max { x: v }.max().to_bits() == v.to_bits());
    assert!(Max { x: v }.estimate().to_bits() == v.to_bits());
    kani::assume(!v.is_nan());
    let mut e = Max::new();
    e.add(v);
    kani::cover!(true);
    assert!(e.x == v);
}

// Lemmas over the contract relation only (no crate code): any results allowed by the relation are
// commutative, associative and idempotent as numbers, +inf / -inf is the unit and NaN is absorbed.
// VL's semilattice fold / merge-tree lemma turns these into independence of order, chunking and
// bracketing for every history.
#[kani::proof]
fn min_rel_semilattice() {
    let a: f64 = kani::any();
    let b: f64 = kani::any();
    let c: f64 = kani::any();
    kani::assume(!a.is_nan());
    let (r_ab, r_ba, r_bc): (f64, f64, f64) = (kani::any(), kani::any(), kani::any());
    let (r_ab_c, r_a_bc, r_aa, r_inf, r_nan): (f64, f64, f64, f64, f64) =
        (kani::any(), kani::any(), kani::any(), kani::any(), kani::any());
    kani::assume(min_rel(a, b, r_ab));
    kani::assume(min_rel(r_ab, c, r_ab_c));
    kani::assume(min_rel(a, a, r_aa));
    kani::assume(min_rel(a, f64::INFINITY, r_inf));
    kani::assume(min_rel(a, f64::NAN, r_nan));
    kani::cover!(true);
    assert!(r_aa == a);
    assert!(r_inf == a);
    assert!(r_nan == a);
    if !b.is_nan() {
        kani::assume(min_rel(b, a, r_ba));
        assert!(r_ab == r_ba);
        kani::assume(min_rel(b, c, r_bc));
        kani::assume(min_rel(a, r_bc, r_a_bc));
        kani::cover!(true);
        assert!(r_ab_c == r_a_bc);
    }
    // the relation is total: the exact numeric minimum satisfies it
    let w = if b.is_nan() || a <= b { a } else { b };
    assert!(min_rel(a, b, w));
}

#[kani::proof]
fn max_rel_semilattice() {
    let a: f64 = kani::any();
    let b: f64 = kani::any();
    let c: f64 = kani::any();
    kani::assume(!a.is_nan());
    let (r_ab, r_ba, r_bc): (f64, f64, f64) = (kani::any(), kani::any(), kani::any());
    let (r_ab_c, r_a_bc, r_aa, r_inf, r_nan): (f64, f64, f64, f64, f64) =
        (kani::any(), kani::any(), kani::any(), kani::any(), kani::any());
    kani::assume(max_rel(a, b, r_ab));
    kani::assume(max_rel(r_ab, c, r_ab_c));
    kani::assume(max_rel(a, a, r_aa));
    kani::assume(max_rel(a, f64::NEG_INFINITY, r_inf));
    kani::assume(max_rel(a, f64::NAN, r_nan));
    kani::cover!(true);
    assert!(r_aa == a);
    assert!(r_inf == a);
    assert!(r_nan == a);
    if !b.is_nan() {
        kani::assume(max_rel(b, a, r_ba));
        assert!(r_ab == r_ba);
        kani::assume(max_rel(b, c, r_bc));
        kani::assume(max_rel(a, r_bc, r_a_bc));
        kani::cover!(true);
        assert!(r_ab_c == r_a_bc);
    }
    let w = if b.is_nan() || a >= b { a } else { b };
    assert!(max_rel(a, b, w));
}
