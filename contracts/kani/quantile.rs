// Harnesses for src/quantile.rs (C15, C16).  Included as `mod verif_kani` at the end of the file.

// Quantile::new(p) returns for every p in [0, 1] and panics for every other f64 (NaN included).
#[kani::proof]
fn new_ok_in_unit_interval() {
    let p: f64 = kani::any();
    kani::assume(p >= 0. && p <= 1.);
    let q = Quantile::new(p);
    kani::cover!(true);
    assert!(q.p().to_bits() == p.to_bits());
    assert!(q.len() == 0 && q.is_empty());
    assert!(q.quantile().is_nan());
    assert!(q.estimate().is_nan());
}

#[kani::proof]
fn new_panics_outside() {
    let p: f64 = kani::any();
    kani::assume(!(p >= 0. && p <= 1.));
    kani::cover!(p.is_nan());
    kani::cover!(p > 1.);
    let _q = Quantile::new(p);
    kani::cover!(true, "UNREACHABLE: Quantile::new returned for p outside [0,1]");
}

// Bit-precise (IEEE) version of "the linear step stays between its neighbours": thorough tier.
#[kani::proof]
fn linear_between_f64() {
    let q: [f64; 5] = kani::any();
    let n: [i64; 5] = kani::any();
    let i: usize = kani::any();
    let up: bool = kani::any();
    kani::assume(i >= 1 && i <= 3);
    let mut k = 0;
    while k < 5 {
        kani::assume(q[k].is_finite() && q[k].abs() <= 1e150);
        kani::assume(n[k] >= 1 && n[k] < (1i64 << 53));
        if k > 0 {
            kani::assume(q[k - 1] <= q[k]);
            kani::assume(n[k - 1] < n[k]);
        }
        k += 1;
    }
    let d = if up { 1. } else { -1. };
    if up { kani::assume(n[i + 1] - n[i] > 1); } else { kani::assume(n[i - 1] - n[i] < -1); }
    let s = Quantile { q, n, m: [0.; 5], dm: [0.; 5] };
    let r = s.linear(i, d);
    kani::cover!(true);
    assert!(q[i - 1] <= r && r <= q[i + 1]);
}

// Integer skeleton of the P-square step, bit-precise: positions stay strictly increasing, the
// minimum marker stays at position 1 relative to its old value, the count advances by one.
#[kani::proof]
fn add_positions_step() {
    let q: [f64; 5] = kani::any();
    let n: [i64; 5] = kani::any();
    let m: [f64; 5] = kani::any();
    let dm: [f64; 5] = kani::any();
    let x: f64 = kani::any();
    let mut k = 0;
    while k < 5 {
        kani::assume(!q[k].is_nan());
        kani::assume(n[k] >= 1 && n[k] < (1i64 << 53));
        if k > 0 {
            kani::assume(q[k - 1] <= q[k]);
            kani::assume(n[k - 1] < n[k]);
        }
        k += 1;
    }
    kani::assume(n[4] >= 5 && !x.is_nan());
    let mut s = Quantile { q, n, m, dm };
    s.add(x);
    kani::cover!(true);
    assert!(s.n[0] == n[0]);
    assert!(s.n[4] == n[4] + 1);
    assert!(s.len() == (n[4] + 1) as u64);
    let mut k = 1;
    while k < 5 {
        assert!(s.n[k - 1] < s.n[k]);
        k += 1;
    }
    assert!(s.dm[2].to_bits() == dm[2].to_bits());
}


// A-LIB validation (reduces the trusted base of the RS contracts of C05/C07/C15): float_ord::sort on the
// slice sizes Quantile uses (1..=5) yields an ascending rearrangement of non-NaN values.
fn count_eq(a: &[f64], v: f64) -> usize {
    let mut c = 0;
    let mut i = 0;
    while i < a.len() {
        if a[i].to_bits() == v.to_bits() { c += 1; }
        i += 1;
    }
    c
}

macro_rules! sort_contract {
    ($name:ident, $n:expr) => {
        #[kani::proof]
        #[kani::unwind(8)]
        fn $name() {
            let orig: [f64; $n] = kani::any();
            let mut i = 0;
            while i < $n {
                kani::assume(!orig[i].is_nan());
                i += 1;
            }
            let mut a = orig;
            sort_floats(&mut a);
            kani::cover!(true);
            let mut i = 1;
            while i < $n {
                assert!(a[i - 1] <= a[i]);
                i += 1;
            }
            let mut i = 0;
            while i < $n {
                assert!(count_eq(&a, orig[i]) == count_eq(&orig, orig[i]));
                i += 1;
            }
        }
    };
}

sort_contract!(sort_floats_contract_3, 3);
sort_contract!(sort_floats_contract_4, 4);
sort_contract!(sort_floats_contract_5, 5);
