// Engine VL: history-level lemmas (Verus).  Code independent: they lift the per-call contracts
// proved by RS / K ("each operation preserves rep for the enlarged / united summary") to every
// sequence of adds, every chunking into contiguous (possibly empty) chunks and every binary merge
// tree.  Nothing here mentions /repo; the hypotheses are exactly the three contract shapes
//   rep(new, zero)
//   rep(e, p)            ==> rep(add(e, x), plus(p, single(x)))
//   rep(a, pa) && rep(b, pb) ==> rep(merge(a, b), plus(pa, pb))
// plus the monoid laws of the summary (associativity, unit; commutativity where order matters).
use vstd::prelude::*;

verus! {

// ---------------------------------------------------------------------------------------------
// Summaries of sequences over an abstract monoid (S, zero, plus) with generator `single`.
// ---------------------------------------------------------------------------------------------
pub open spec fn summary<S, X>(zero: S, plus: spec_fn(S, S) -> S, single: spec_fn(X) -> S, s: Seq<X>) -> S
    decreases s.len(),
{
    if s.len() == 0 {
        zero
    } else {
        plus(summary(zero, plus, single, s.drop_last()), single(s.last()))
    }
}

pub open spec fn fold_adds<E, X>(new_e: E, add_e: spec_fn(E, X) -> E, s: Seq<X>) -> E
    decreases s.len(),
{
    if s.len() == 0 {
        new_e
    } else {
        add_e(fold_adds(new_e, add_e, s.drop_last()), s.last())
    }
}

pub open spec fn monoid<S>(zero: S, plus: spec_fn(S, S) -> S) -> bool {
    &&& forall|a: S, b: S, c: S| #[trigger] plus(plus(a, b), c) == plus(a, plus(b, c))
    &&& forall|a: S| #[trigger] plus(a, zero) == a
    &&& forall|a: S| #[trigger] plus(zero, a) == a
}

pub open spec fn commutative<S>(plus: spec_fn(S, S) -> S) -> bool {
    forall|a: S, b: S| #[trigger] plus(a, b) == plus(b, a)
}

pub open spec fn add_contract<E, S, X>(
    rep: spec_fn(E, S) -> bool, add_e: spec_fn(E, X) -> E, plus: spec_fn(S, S) -> S, single: spec_fn(X) -> S,
) -> bool {
    forall|e: E, p: S, x: X| rep(e, p) ==> #[trigger] rep(add_e(e, x), plus(p, single(x)))
}

pub open spec fn merge_contract<E, S>(
    rep: spec_fn(E, S) -> bool, merge_e: spec_fn(E, E) -> E, plus: spec_fn(S, S) -> S,
) -> bool {
    forall|a: E, b: E, pa: S, pb: S| rep(a, pa) && rep(b, pb) ==> #[trigger] rep(merge_e(a, b), plus(pa, pb))
}

// Every add-only history represents the summary of the sequence it absorbed.
pub proof fn lemma_fold<E, S, X>(
    rep: spec_fn(E, S) -> bool, new_e: E, add_e: spec_fn(E, X) -> E,
    zero: S, plus: spec_fn(S, S) -> S, single: spec_fn(X) -> S, s: Seq<X>,
)
    requires
        rep(new_e, zero),
        add_contract(rep, add_e, plus, single),
    ensures
        rep(fold_adds(new_e, add_e, s), summary(zero, plus, single, s)),
    decreases s.len(),
{
    if s.len() == 0 {
    } else {
        lemma_fold(rep, new_e, add_e, zero, plus, single, s.drop_last());
        let e = fold_adds(new_e, add_e, s.drop_last());
        let p = summary(zero, plus, single, s.drop_last());
        assert(rep(add_e(e, s.last()), plus(p, single(s.last()))));
    }
}

// Extending an existing estimator (Extend / a later piece of the stream).
pub proof fn lemma_fold_from<E, S, X>(
    rep: spec_fn(E, S) -> bool, e0: E, p0: S, add_e: spec_fn(E, X) -> E,
    zero: S, plus: spec_fn(S, S) -> S, single: spec_fn(X) -> S, s: Seq<X>,
)
    requires
        rep(e0, p0),
        monoid(zero, plus),
        add_contract(rep, add_e, plus, single),
    ensures
        rep(fold_adds(e0, add_e, s), plus(p0, summary(zero, plus, single, s))),
    decreases s.len(),
{
    if s.len() == 0 {
        assert(plus(p0, zero) == p0);
    } else {
        lemma_fold_from(rep, e0, p0, add_e, zero, plus, single, s.drop_last());
        let e = fold_adds(e0, add_e, s.drop_last());
        let p = summary(zero, plus, single, s.drop_last());
        assert(rep(add_e(e, s.last()), plus(plus(p0, p), single(s.last()))));
        assert(plus(plus(p0, p), single(s.last())) == plus(p0, plus(p, single(s.last()))));
    }
}

// summary(a ++ b) = summary(a) + summary(b)
pub proof fn lemma_summary_concat<S, X>(
    zero: S, plus: spec_fn(S, S) -> S, single: spec_fn(X) -> S, a: Seq<X>, b: Seq<X>,
)
    requires
        monoid(zero, plus),
    ensures
        summary(zero, plus, single, a + b) == plus(summary(zero, plus, single, a), summary(zero, plus, single, b)),
    decreases b.len(),
{
    if b.len() == 0 {
        assert(a + b =~= a);
        assert(plus(summary(zero, plus, single, a), zero) == summary(zero, plus, single, a));
    } else {
        lemma_summary_concat(zero, plus, single, a, b.drop_last());
        assert((a + b).drop_last() =~= a + b.drop_last());
        assert((a + b).last() == b.last());
        let sa = summary(zero, plus, single, a);
        let sb = summary(zero, plus, single, b.drop_last());
        assert(plus(plus(sa, sb), single(b.last())) == plus(sa, plus(sb, single(b.last()))));
    }
}

// ---------------------------------------------------------------------------------------------
// Merge trees: leaves are contiguous chunks (possibly empty = a freshly constructed estimator,
// which is also what rayon's reduce identity inserts), inner nodes are merge(left, right).
// ---------------------------------------------------------------------------------------------
pub enum Tree<X> {
    Leaf(Seq<X>),
    Node(Box<Tree<X>>, Box<Tree<X>>),
}

pub open spec fn flatten<X>(t: Tree<X>) -> Seq<X>
    decreases t,
{
    match t {
        Tree::Leaf(s) => s,
        Tree::Node(l, r) => flatten(*l) + flatten(*r),
    }
}

pub open spec fn eval<E, X>(new_e: E, add_e: spec_fn(E, X) -> E, merge_e: spec_fn(E, E) -> E, t: Tree<X>) -> E
    decreases t,
{
    match t {
        Tree::Leaf(s) => fold_adds(new_e, add_e, s),
        Tree::Node(l, r) => merge_e(eval(new_e, add_e, merge_e, *l), eval(new_e, add_e, merge_e, *r)),
    }
}

// Every merge tree over every chunking represents the summary of the whole sequence.
pub proof fn lemma_merge_tree<E, S, X>(
    rep: spec_fn(E, S) -> bool, new_e: E, add_e: spec_fn(E, X) -> E, merge_e: spec_fn(E, E) -> E,
    zero: S, plus: spec_fn(S, S) -> S, single: spec_fn(X) -> S, t: Tree<X>,
)
    requires
        monoid(zero, plus),
        rep(new_e, zero),
        add_contract(rep, add_e, plus, single),
        merge_contract(rep, merge_e, plus),
    ensures
        rep(eval(new_e, add_e, merge_e, t), summary(zero, plus, single, flatten(t))),
    decreases t,
{
    match t {
        Tree::Leaf(s) => {
            lemma_fold(rep, new_e, add_e, zero, plus, single, s);
        },
        Tree::Node(l, r) => {
            lemma_merge_tree(rep, new_e, add_e, merge_e, zero, plus, single, *l);
            lemma_merge_tree(rep, new_e, add_e, merge_e, zero, plus, single, *r);
            lemma_summary_concat(zero, plus, single, flatten(*l), flatten(*r));
            let a = eval(new_e, add_e, merge_e, *l);
            let b = eval(new_e, add_e, merge_e, *r);
            let pa = summary(zero, plus, single, flatten(*l));
            let pb = summary(zero, plus, single, flatten(*r));
            assert(rep(merge_e(a, b), plus(pa, pb)));
        },
    }
}

// Consequence: if rep determines the observable statistics (obs(e) == stat(p) whenever rep(e, p)),
// the merged result and the single-pass result report the same statistics of the same summary.
pub proof fn lemma_tree_equals_single_pass<E, S, X, R>(
    rep: spec_fn(E, S) -> bool, new_e: E, add_e: spec_fn(E, X) -> E, merge_e: spec_fn(E, E) -> E,
    zero: S, plus: spec_fn(S, S) -> S, single: spec_fn(X) -> S, t: Tree<X>,
    obs: spec_fn(E) -> R, stat: spec_fn(S) -> R,
)
    requires
        monoid(zero, plus),
        rep(new_e, zero),
        add_contract(rep, add_e, plus, single),
        merge_contract(rep, merge_e, plus),
        forall|e: E, p: S| #[trigger] rep(e, p) ==> obs(e) == stat(p),
    ensures
        obs(eval(new_e, add_e, merge_e, t)) == obs(fold_adds(new_e, add_e, flatten(t))),
        obs(eval(new_e, add_e, merge_e, t)) == stat(summary(zero, plus, single, flatten(t))),
{
    lemma_merge_tree(rep, new_e, add_e, merge_e, zero, plus, single, t);
    lemma_fold(rep, new_e, add_e, zero, plus, single, flatten(t));
}

// ---------------------------------------------------------------------------------------------
// Order independence for commutative summaries (power sums under +, extremes under min/max,
// count vectors under +): swapping two adjacent chunks, hence any permutation, keeps the summary.
// ---------------------------------------------------------------------------------------------
pub proof fn lemma_semilattice_or_commutative_swap<S, X>(
    zero: S, plus: spec_fn(S, S) -> S, single: spec_fn(X) -> S, a: Seq<X>, b: Seq<X>, c: Seq<X>, d: Seq<X>,
)
    requires
        monoid(zero, plus),
        commutative(plus),
    ensures
        summary(zero, plus, single, a + b + c + d) == summary(zero, plus, single, a + c + b + d),
{
    lemma_summary_concat(zero, plus, single, a + b + c, d);
    lemma_summary_concat(zero, plus, single, a + b, c);
    lemma_summary_concat(zero, plus, single, a, b);
    lemma_summary_concat(zero, plus, single, a + c + b, d);
    lemma_summary_concat(zero, plus, single, a + c, b);
    lemma_summary_concat(zero, plus, single, a, c);
    let sa = summary(zero, plus, single, a);
    let sb = summary(zero, plus, single, b);
    let sc = summary(zero, plus, single, c);
    assert(plus(plus(sa, sb), sc) == plus(sa, plus(sb, sc)));
    assert(plus(sb, sc) == plus(sc, sb));
    assert(plus(plus(sa, sc), sb) == plus(sa, plus(sc, sb)));
}

// Idempotent commutative monoids (Min / Max): seeing a value twice changes nothing, and
// from_value(v) (= summary single(v)) behaves as new() followed by add(v).
pub proof fn lemma_semilattice_from_value<E, S, X>(
    rep: spec_fn(E, S) -> bool, new_e: E, add_e: spec_fn(E, X) -> E,
    zero: S, plus: spec_fn(S, S) -> S, single: spec_fn(X) -> S, v: X, s: Seq<X>, from_value: E,
)
    requires
        monoid(zero, plus),
        rep(new_e, zero),
        rep(from_value, single(v)),
        add_contract(rep, add_e, plus, single),
    ensures
        rep(fold_adds(from_value, add_e, s), summary(zero, plus, single, seq![v] + s)),
{
    lemma_fold_from(rep, from_value, single(v), add_e, zero, plus, single, s);
    lemma_summary_concat(zero, plus, single, seq![v], s);
    assert(seq![v].drop_last() =~= Seq::<X>::empty());
    assert(summary(zero, plus, single, seq![v].drop_last()) == zero);
    assert(summary(zero, plus, single, seq![v]) == plus(zero, single(v)));
}


// ---------------------------------------------------------------------------------------------
// A-REALIZABLE, discharged: facts about central sums of real multisets that are not inductive in
// the summary.  sum_pow(s, c, p) = sum_i (s[i] - c)^p over the reals.
// ---------------------------------------------------------------------------------------------
pub open spec fn rpow(x: real, p: nat) -> real
    decreases p,
{
    if p == 0 { 1real } else { x * rpow(x, (p - 1) as nat) }
}

pub open spec fn sum_pow(s: Seq<real>, c: real, p: nat) -> real
    decreases s.len(),
{
    if s.len() == 0 { 0real } else { sum_pow(s.drop_last(), c, p) + rpow(s.last() - c, p) }
}

pub proof fn lemma_real_sq(x: real)
    ensures
        rpow(x, 2) == x * x,
        rpow(x, 4) == (x * x) * (x * x),
        rpow(x, 3) == x * (x * x),
        x * x >= 0real,
        (x * x) * (x * x) >= 0real,
        (x * x == 0real) ==> x == 0real,
        ((x * x) * (x * x) == 0real) ==> x == 0real,
{
    reveal_with_fuel(rpow, 5);
    assert(x * 1real == x);
    assert(x * (x * (x * x)) == (x * x) * (x * x)) by(nonlinear_arith);
    assert(x * x >= 0real) by(nonlinear_arith);
    assert((x * x) * (x * x) >= 0real) by(nonlinear_arith);
    assert((x * x == 0real) ==> x == 0real) by(nonlinear_arith);
    assert(((x * x) * (x * x) == 0real) ==> x == 0real) by(nonlinear_arith);
}

// M2 >= 0 and M4 >= 0
pub proof fn lemma_realizable_even_nonneg(s: Seq<real>, c: real)
    ensures
        sum_pow(s, c, 2) >= 0real,
        sum_pow(s, c, 4) >= 0real,
    decreases s.len(),
{
    if s.len() > 0 {
        lemma_realizable_even_nonneg(s.drop_last(), c);
        lemma_real_sq(s.last() - c);
    }
}

// M2 = 0  ==>  every observation equals c
pub proof fn lemma_realizable_zero_spread(s: Seq<real>, c: real)
    requires
        sum_pow(s, c, 2) == 0real,
    ensures
        forall|i: int| 0 <= i < s.len() ==> s[i] == c,
    decreases s.len(),
{
    if s.len() > 0 {
        lemma_realizable_even_nonneg(s.drop_last(), c);
        lemma_real_sq(s.last() - c);
        assert(sum_pow(s.drop_last(), c, 2) == 0real);
        assert(s.last() == c);
        lemma_realizable_zero_spread(s.drop_last(), c);
        assert forall|i: int| 0 <= i < s.len() implies s[i] == c by {
            if i < s.len() - 1 {
                assert(s.drop_last()[i] == s[i]);
            }
        }
    }
}

// every observation equals c  ==>  M3 = M4 = 0 (and M2 = 0)
pub proof fn lemma_realizable_constant(s: Seq<real>, c: real)
    requires
        forall|i: int| 0 <= i < s.len() ==> s[i] == c,
    ensures
        sum_pow(s, c, 2) == 0real,
        sum_pow(s, c, 3) == 0real,
        sum_pow(s, c, 4) == 0real,
    decreases s.len(),
{
    if s.len() > 0 {
        assert forall|i: int| 0 <= i < s.drop_last().len() implies s.drop_last()[i] == c by {
            assert(s.drop_last()[i] == s[i]);
        }
        lemma_realizable_constant(s.drop_last(), c);
        lemma_real_sq(s.last() - c);
        assert(s.last() - c == 0real);
    }
}

// M2 = 0 ==> M3 = 0 and M4 = 0;   M2 > 0 ==> M4 > 0
pub proof fn lemma_realizable(s: Seq<real>, c: real)
    ensures
        sum_pow(s, c, 2) >= 0real,
        sum_pow(s, c, 2) == 0real ==> sum_pow(s, c, 3) == 0real && sum_pow(s, c, 4) == 0real,
        sum_pow(s, c, 2) > 0real ==> sum_pow(s, c, 4) > 0real,
{
    lemma_realizable_even_nonneg(s, c);
    if sum_pow(s, c, 2) == 0real {
        lemma_realizable_zero_spread(s, c);
        lemma_realizable_constant(s, c);
    }
    if sum_pow(s, c, 4) == 0real {
        lemma_realizable_zero_spread4(s, c);
        lemma_realizable_constant(s, c);
    }
}

pub proof fn lemma_realizable_zero_spread4(s: Seq<real>, c: real)
    requires
        sum_pow(s, c, 4) == 0real,
    ensures
        forall|i: int| 0 <= i < s.len() ==> s[i] == c,
    decreases s.len(),
{
    if s.len() > 0 {
        lemma_realizable_even_nonneg(s.drop_last(), c);
        lemma_real_sq(s.last() - c);
        assert(sum_pow(s.drop_last(), c, 4) == 0real);
        assert(s.last() == c);
        lemma_realizable_zero_spread4(s.drop_last(), c);
        assert forall|i: int| 0 <= i < s.len() implies s[i] == c by {
            if i < s.len() - 1 {
                assert(s.drop_last()[i] == s[i]);
            }
        }
    }
}

// Bridge between central sums and power sums (for every centre c, in particular c = mean):
//   sum (x-c)^2 = S2 - 2c S1 + c^2 n,   sum (x-c)^3 = S3 - 3c S2 + 3c^2 S1 - c^3 n,
//   sum (x-c)^4 = S4 - 4c S3 + 6c^2 S2 - 4c^3 S1 + c^4 n
// so the M_p(P) terms of the RS contracts (written over power sums) ARE the central sums the
// realizability lemmas talk about.
pub open spec fn psum(s: Seq<real>, j: nat) -> real
    decreases s.len(),
{
    if s.len() == 0 { 0real } else { psum(s.drop_last(), j) + rpow(s.last(), j) }
}

pub proof fn lemma_bridge(s: Seq<real>, c: real)
    ensures
        sum_pow(s, c, 2) == psum(s, 2) - 2real * c * psum(s, 1) + c * c * psum(s, 0),
        sum_pow(s, c, 3) == psum(s, 3) - 3real * c * psum(s, 2) + 3real * c * c * psum(s, 1) - c * c * c * psum(s, 0),
        sum_pow(s, c, 4) == psum(s, 4) - 4real * c * psum(s, 3) + 6real * c * c * psum(s, 2) - 4real * c * c * c * psum(s, 1)
            + c * c * c * c * psum(s, 0),
    decreases s.len(),
{
    if s.len() > 0 {
        lemma_bridge(s.drop_last(), c);
        let x = s.last();
        reveal_with_fuel(rpow, 5);
        assert(rpow(x, 0) == 1real && rpow(x, 1) == x && rpow(x, 2) == x * x && rpow(x, 3) == x * (x * x)
            && rpow(x, 4) == x * (x * (x * x))) by {
            assert(x * 1real == x);
        }
        let d = x - c;
        assert(rpow(d, 2) == d * d && rpow(d, 3) == d * (d * d) && rpow(d, 4) == d * (d * (d * d))) by {
            assert(d * 1real == d);
        }
        assert(d * d == x * x - 2real * c * x + c * c) by(nonlinear_arith) requires d == x - c;
        assert(d * (d * d) == x * (x * x) - 3real * c * (x * x) + 3real * c * c * x - c * c * c) by(nonlinear_arith) requires d == x - c;
        assert(d * (d * (d * d)) == x * (x * (x * x)) - 4real * c * (x * (x * x)) + 6real * c * c * (x * x) - 4real * c * c * c * x
            + c * c * c * c) by(nonlinear_arith) requires d == x - c;
        let (p0, p1, p2, p3, p4) = (psum(s.drop_last(), 0), psum(s.drop_last(), 1), psum(s.drop_last(), 2), psum(s.drop_last(), 3), psum(s.drop_last(), 4));
        assert(c * c * (p0 + 1real) == c * c * p0 + c * c) by(nonlinear_arith);
        assert(2real * c * (p1 + x) == 2real * c * p1 + 2real * c * x) by(nonlinear_arith);
        assert(3real * c * (p2 + x * x) == 3real * c * p2 + 3real * c * (x * x)) by(nonlinear_arith);
        assert(3real * c * c * (p1 + x) == 3real * c * c * p1 + 3real * c * c * x) by(nonlinear_arith);
        assert(c * c * c * (p0 + 1real) == c * c * c * p0 + c * c * c) by(nonlinear_arith);
        assert(4real * c * (p3 + x * (x * x)) == 4real * c * p3 + 4real * c * (x * (x * x))) by(nonlinear_arith);
        assert(6real * c * c * (p2 + x * x) == 6real * c * c * p2 + 6real * c * c * (x * x)) by(nonlinear_arith);
        assert(4real * c * c * c * (p1 + x) == 4real * c * c * c * p1 + 4real * c * c * c * x) by(nonlinear_arith);
        assert(c * c * c * c * (p0 + 1real) == c * c * c * c * p0 + c * c * c * c) by(nonlinear_arith);
    }
}

// ---------------------------------------------------------------------------------------------
// Stage-wise contracts compose (C05 / C15): if two step functions are sequential compositions of
// stages that agree on well-formed states and preserve well-formedness, the steps agree and the
// whole stream processing agrees, by induction over the stream.
// ---------------------------------------------------------------------------------------------
pub open spec fn run_stream<St, X>(step: spec_fn(St, X) -> St, init: St, s: Seq<X>) -> St
    decreases s.len(),
{
    if s.len() == 0 { init } else { step(run_stream(step, init, s.drop_last()), s.last()) }
}

pub proof fn lemma_stagewise_stream<St, X>(
    wf: spec_fn(St) -> bool,
    code: spec_fn(St, X) -> St, refer: spec_fn(St, X) -> St,
    init: St, s: Seq<X>,
)
    requires
        wf(init),
        forall|st: St, x: X| wf(st) ==> #[trigger] code(st, x) == refer(st, x),
        forall|st: St, x: X| wf(st) ==> #[trigger] wf(code(st, x)),
    ensures
        run_stream(code, init, s) == run_stream(refer, init, s),
        wf(run_stream(code, init, s)),
    decreases s.len(),
{
    if s.len() > 0 {
        lemma_stagewise_stream(wf, code, refer, init, s.drop_last());
        let st = run_stream(code, init, s.drop_last());
        assert(code(st, s.last()) == refer(st, s.last()));
        assert(wf(code(st, s.last())));
    }
}

// one step as a composition of four stages (prologue; adjust 1; adjust 2; adjust 3)
pub proof fn lemma_stagewise_step<St, X>(
    wf0: spec_fn(St) -> bool, wf1: spec_fn(St) -> bool,
    p_c: spec_fn(St, X) -> St, p_r: spec_fn(St, X) -> St,
    a1_c: spec_fn(St) -> St, a1_r: spec_fn(St) -> St,
    a2_c: spec_fn(St) -> St, a2_r: spec_fn(St) -> St,
    a3_c: spec_fn(St) -> St, a3_r: spec_fn(St) -> St,
    st: St, x: X,
)
    requires
        wf0(st),
        forall|t: St, y: X| wf0(t) ==> #[trigger] p_c(t, y) == p_r(t, y) && wf1(p_c(t, y)),
        forall|t: St| wf1(t) ==> #[trigger] a1_c(t) == a1_r(t) && wf1(a1_c(t)),
        forall|t: St| wf1(t) ==> #[trigger] a2_c(t) == a2_r(t) && wf1(a2_c(t)),
        forall|t: St| wf1(t) ==> #[trigger] a3_c(t) == a3_r(t) && wf1(a3_c(t)),
    ensures
        a3_c(a2_c(a1_c(p_c(st, x)))) == a3_r(a2_r(a1_r(p_r(st, x)))),
        wf1(a3_c(a2_c(a1_c(p_c(st, x))))),
{
    let s1 = p_c(st, x);
    assert(s1 == p_r(st, x) && wf1(s1));
    let s2 = a1_c(s1);
    assert(s2 == a1_r(s1) && wf1(s2));
    let s3 = a2_c(s2);
    assert(s3 == a2_r(s2) && wf1(s3));
    let s4 = a3_c(s3);
    assert(s4 == a3_r(s3) && wf1(s4));
}

} // verus!

fn main() {}
