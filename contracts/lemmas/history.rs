// Engine VL: history-level lemmas (Verus).  Code independent: they lift the per-call contracts
// proved by RS / K ("each operation preserves rep for the enlarged / united summary") to every
// sequence of adds, every chunking into contiguous (possibly empty) chunks and every binary merge
// tree.  Nothing here mentions /repo; the hypotheses are exactly the three contract shapes
//   rep(new, zero)
//   rep(e, p)            ==> rep(add(e, x), plus(p, single(x)))
//   rep(a, pa) && rep(b, pb) ==> rep(merge(a, b), plus(pa, pb))
// plus the monoid laws of the summary (associativity, unit; commutativity where order matters).
use vstd::prelude::*;

verus! {

// ---------------------------------------------------------------------------------------------
// Summaries of sequences over an abstract monoid (S, zero, plus) with generator `single`.
// ---------------------------------------------------------------------------------------------
pub open spec fn summary<S, X>(zero: S, plus: spec_fn(S, S) -> S, single: spec_fn(X) -> S, s: Seq<X>) -> S
    decreases s.len(),
{
    if s.len() == 0 {
        zero
    } else {
        plus(summary(zero, plus, single, s.drop_last()), single(s.last()))
    }
}

pub open spec fn fold_adds<E, X>(new_e: E, add_e: spec_fn(E, X) -> E, s: Seq<X>) -> E
    decreases s.len(),
{
    if s.len() == 0 {
        new_e
    } else {
        add_e(fold_adds(new_e, add_e, s.drop_last()), s.last())
    }
}

pub open spec fn monoid<S>(zero: S, plus: spec_fn(S, S) -> S) -> bool {
    &&& forall|a: S, b: S, c: S| #[trigger] plus(plus(a, b), c) == plus(a, plus(b, c))
    &&& forall|a: S| #[trigger] plus(a, zero) == a
    &&& forall|a: S| #[trigger] plus(zero, a) == a
}

pub open spec fn commutative<S>(plus: spec_fn(S, S) -> S) -> bool {
    forall|a: S, b: S| #[trigger] plus(a, b) == plus(b, a)
}

pub open spec fn add_contract<E, S, X>(
    rep: spec_fn(E, S) -> bool, add_e: spec_fn(E, X) -> E, plus: spec_fn(S, S) -> S, single: spec_fn(X) -> S,
) -> bool {
    forall|e: E, p: S, x: X| rep(e, p) ==> #[trigger] rep(add_e(e, x), plus(p, single(x)))
}

pub open spec fn merge_contract<E, S>(
    rep: spec_fn(E, S) -> bool, merge_e: spec_fn(E, E) -> E, plus: spec_fn(S, S) -> S,
) -> bool {
    forall|a: E, b: E, pa: S, pb: S| rep(a, pa) && rep(b, pb) ==> #[trigger] rep(merge_e(a, b), plus(pa, pb))
}

// Every add-only history represents the summary of the sequence it absorbed.
pub proof fn lemma_fold<E, S, X>(
    rep: spec_fn(E, S) -> bool, new_e: E, add_e: spec_fn(E, X) -> E,
    zero: S, plus: spec_fn(S, S) -> S, single: spec_fn(X) -> S, s: Seq<X>,
)
    requires
        rep(new_e, zero),
        add_contract(rep, add_e, plus, single),
    ensures
        rep(fold_adds(new_e, add_e, s), summary(zero, plus, single, s)),
    decreases s.len(),
{
    if s.len() == 0 {
    } else {
        lemma_fold(rep, new_e, add_e, zero, plus, single, s.drop_last());
        let e = fold_adds(new_e, add_e, s.drop_last());
        let p = summary(zero, plus, single, s.drop_last());
        assert(rep(add_e(e, s.last()), plus(p, single(s.last()))));
    }
}

// Extending an existing estimator (Extend / a later piece of the stream).
pub proof fn lemma_fold_from<E, S, X>(
    rep: spec_fn(E, S) -> bool, e0: E, p0: S, add_e: spec_fn(E, X) -> E,
    zero: S, plus: spec_fn(S, S) -> S, single: spec_fn(X) -> S, s: Seq<X>,
)
    requires
        rep(e0, p0),
        monoid(zero, plus),
        add_contract(rep, add_e, plus, single),
    ensures
        rep(fold_adds(e0, add_e, s), plus(p0, summary(zero, plus, single, s))),
    decreases s.len(),
{
    if s.len() == 0 {
        assert(plus(p0, zero) == p0);
    } else {
        lemma_fold_from(rep, e0, p0, add_e, zero, plus, single, s.drop_last());
        let e = fold_adds(e0, add_e, s.drop_last());
        let p = summary(zero, plus, single, s.drop_last());
        assert(rep(add_e(e, s.last()), plus(plus(p0, p), single(s.last()))));
        assert(plus(plus(p0, p), single(s.last())) == plus(p0, plus(p, single(s.last()))));
    }
}

// summary(a ++ b) = summary(a) + summary(b)
pub proof fn lemma_summary_concat<S, X>(
    zero: S, plus: spec_fn(S, S) -> S, single: spec_fn(X) -> S, a: Seq<X>, b: Seq<X>,
)
    requires
        monoid(zero, plus),
    ensures
        summary(zero, plus, single, a + b) == plus(summary(zero, plus, single, a), summary(zero, plus, single, b)),
    decreases b.len(),
{
    if b.len() == 0 {
        assert(a + b =~= a);
        assert(plus(summary(zero, plus, single, a), zero) == summary(zero, plus, single, a));
    } else {
        lemma_summary_concat(zero, plus, single, a, b.drop_last());
        assert((a + b).drop_last() =~= a + b.drop_last());
        assert((a + b).last() == b.last());
        let sa = summary(zero, plus, single, a);
        let sb = summary(zero, plus, single, b.drop_last());
        assert(plus(plus(sa, sb), single(b.last())) == plus(sa, plus(sb, single(b.last()))));
    }
}

// ---------------------------------------------------------------------------------------------
// Merge trees: leaves are contiguous chunks (possibly empty = a freshly constructed estimator,
// which is also what rayon's reduce identity inserts), inner nodes are merge(left, right).
// ---------------------------------------------------------------------------------------------
pub enum Tree<X> {
    Leaf(Seq<X>),
    Node(Box<Tree<X>>, Box<Tree<X>>),
}

pub open spec fn flatten<X>(t: Tree<X>) -> Seq<X>
    decreases t,
{
    match t {
        Tree::Leaf(s) => s,
        Tree::Node(l, r) => flatten(*l) + flatten(*r),
    }
}

pub open spec fn eval<E, X>(new_e: E, add_e: spec_fn(E, X) -> E, merge_e: spec_fn(E, E) -> E, t: Tree<X>) -> E
    decreases t,
{
    match t {
        Tree::Leaf(s) => fold_adds(new_e, add_e, s),
        Tree::Node(l, r) => merge_e(eval(new_e, add_e, merge_e, *l), eval(new_e, add_e, merge_e, *r)),
    }
}

// Every merge tree over every chunking represents the summary of the whole sequence.
pub proof fn lemma_merge_tree<E, S, X>(
    rep: spec_fn(E, S) -> bool, new_e: E, add_e: spec_fn(E, X) -> E, merge_e: spec_fn(E, E) -> E,
    zero: S, plus: spec_fn(S, S) -> S, single: spec_fn(X) -> S, t: Tree<X>,
)
    requires
        monoid(zero, plus),
        rep(new_e, zero),
        add_contract(rep, add_e, plus, single),
        merge_contract(rep, merge_e, plus),
    ensures
        rep(eval(new_e, add_e, merge_e, t), summary(zero, plus, single, flatten(t))),
    decreases t,
{
    match t {
        Tree::Leaf(s) => {
            lemma_fold(rep, new_e, add_e, zero, plus, single, s);
        },
        Tree::Node(l, r) => {
            lemma_merge_tree(rep, new_e, add_e, merge_e, zero, plus, single, *l);
            lemma_merge_tree(rep, new_e, add_e, merge_e, zero, plus, single, *r);
            lemma_summary_concat(zero, plus, single, flatten(*l), flatten(*r));
            let a = eval(new_e, add_e, merge_e, *l);
            let b = eval(new_e, add_e, merge_e, *r);
            let pa = summary(zero, plus, single, flatten(*l));
            let pb = summary(zero, plus, single, flatten(*r));
            assert(rep(merge_e(a, b), plus(pa, pb)));
        },
    }
}

// Consequence: if rep determines the observable statistics (obs(e) == stat(p) whenever rep(e, p)),
// the merged result and the single-pass result report the same statistics of the same summary.
pub proof fn lemma_tree_equals_single_pass<E, S, X, R>(
    rep: spec_fn(E, S) -> bool, new_e: E, add_e: spec_fn(E, X) -> E, merge_e: spec_fn(E, E) -> E,
    zero: S, plus: spec_fn(S, S) -> S, single: spec_fn(X) -> S, t: Tree<X>,
    obs: spec_fn(E) -> R, stat: spec_fn(S) -> R,
)
    requires
        monoid(zero, plus),
        rep(new_e, zero),
        add_contract(rep, add_e, plus, single),
        merge_contract(rep, merge_e, plus),
        forall|e: E, p: S| #[trigger] rep(e, p) ==> obs(e) == stat(p),
    ensures
        obs(eval(new_e, add_e, merge_e, t)) == obs(fold_adds(new_e, add_e, flatten(t))),
        obs(eval(new_e, add_e, merge_e, t)) == stat(summary(zero, plus, single, flatten(t))),
{
    lemma_merge_tree(rep, new_e, add_e, merge_e, zero, plus, single, t);
    lemma_fold(rep, new_e, add_e, zero, plus, single, flatten(t));
}

// ---------------------------------------------------------------------------------------------
// Order independence for commutative summaries (power sums under +, extremes under min/max,
// count vectors under +): swapping two adjacent chunks, hence any permutation, keeps the summary.
// ---------------------------------------------------------------------------------------------
pub proof fn lemma_semilattice_or_commutative_swap<S, X>(
    zero: S, plus: spec_fn(S, S) -> S, single: spec_fn(X) -> S, a: Seq<X>, b: Seq<X>, c: Seq<X>, d: Seq<X>,
)
    requires
        monoid(zero, plus),
        commutative(plus),
    ensures
        summary(zero, plus, single, a + b + c + d) == summary(zero, plus, single, a + c + b + d),
{
    lemma_summary_concat(zero, plus, single, a + b + c, d);
    lemma_summary_concat(zero, plus, single, a + b, c);
    lemma_summary_concat(zero, plus, single, a, b);
    lemma_summary_concat(zero, plus, single, a + c + b, d);
    lemma_summary_concat(zero, plus, single, a + c, b);
    lemma_summary_concat(zero, plus, single, a, c);
    let sa = summary(zero, plus, single, a);
    let sb = summary(zero, plus, single, b);
    let sc = summary(zero, plus, single, c);
    assert(plus(plus(sa, sb), sc) == plus(sa, plus(sb, sc)));
    assert(plus(sb, sc) == plus(sc, sb));
    assert(plus(plus(sa, sc), sb) == plus(sa, plus(sc, sb)));
}

// Idempotent commutative monoids (Min / Max): seeing a value twice changes nothing, and
// from_value(v) (= summary single(v)) behaves as new() followed by add(v).
pub proof fn lemma_semilattice_from_value<E, S, X>(
    rep: spec_fn(E, S) -> bool, new_e: E, add_e: spec_fn(E, X) -> E,
    zero: S, plus: spec_fn(S, S) -> S, single: spec_fn(X) -> S, v: X, s: Seq<X>, from_value: E,
)
    requires
        monoid(zero, plus),
        rep(new_e, zero),
        rep(from_value, single(v)),
        add_contract(rep, add_e, plus, single),
    ensures
        rep(fold_adds(from_value, add_e, s), summary(zero, plus, single, seq![v] + s)),
{
    lemma_fold_from(rep, from_value, single(v), add_e, zero, plus, single, s);
    lemma_summary_concat(zero, plus, single, seq![v], s);
    assert(seq![v].drop_last() =~= Seq::<X>::empty());
    assert(summary(zero, plus, single, seq![v].drop_last()) == zero);
    assert(summary(zero, plus, single, seq![v]) == plus(zero, single(v)));
}

} // verus!

fn main() {}
