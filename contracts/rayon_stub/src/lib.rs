//! Specification stub of rayon for C19 (engine K).  It makes rayon's documented fold/reduce contract
//! executable:  `fold(id, f)` splits the input into CONTIGUOUS chunks at nondeterministic cut points
//! (chunks may be empty) and folds each chunk from `id()` with `f`, in order;  `reduce(id, g)` combines
//! the chunk results in order with `g` under a nondeterministic bracketing and may insert `id()` results
//! anywhere.  At most 3 items and 3 chunks (fixed arrays: heap-based stubs did not terminate in CBMC).
//! This is A-RAYON made explicit: real threads, work stealing and data races are NOT modelled.

#[cfg(kani)]
extern crate kani;

fn choose() -> u8 {
    #[cfg(kani)]
    {
        kani::any()
    }
    #[cfg(not(kani))]
    {
        0
    }
}

pub mod iter {
    use super::choose;

    pub const MAX: usize = 3;

    pub trait ParallelIterator: Sized {
        type Item;

        /// the items, in order (None beyond the length)
        fn drain(self) -> [Option<Self::Item>; MAX];

        fn fold<T, ID, F>(self, identity: ID, fold_op: F) -> Fold<T>
        where
            ID: Fn() -> T,
            F: Fn(T, Self::Item) -> T,
        {
            let items = self.drain();
            // chunk index of every item: non-decreasing, starting anywhere in 0..3 (so leading, middle and
            // trailing chunks may be empty)
            let c0 = choose() % 3;
            let c1 = c0 + choose() % (3 - c0);
            let c2 = c1 + choose() % (3 - c1);
            let chunk_of = [c0, c1, c2];
            let mut parts: [Option<T>; MAX] = [Some(identity()), Some(identity()), Some(identity())];
            let mut k = 0;
            for it in items {
                if let Some(x) = it {
                    let c = chunk_of[k] as usize;
                    let cur = parts[c].take().unwrap();
                    parts[c] = Some(fold_op(cur, x));
                }
                k += 1;
            }
            Fold { parts }
        }

        /// order-preserving adaptors (rayon: `map`, `copied`, `cloned` apply the function to every item, keeping the
        /// sequence), so that glue which converts `&f64` items before delegating to the by-value impl stays in reach
        fn map<R, F>(self, f: F) -> Map<R>
        where
            F: Fn(Self::Item) -> R,
        {
            let items = self.drain();
            let [a, b, c] = items;
            Map { items: [a.map(&f), b.map(&f), c.map(&f)] }
        }

        fn copied<'a, T>(self) -> Map<T>
        where
            T: 'a + Copy,
            Self: ParallelIterator<Item = &'a T>,
        {
            self.map(|x| *x)
        }

        fn cloned<'a, T>(self) -> Map<T>
        where
            T: 'a + Clone,
            Self: ParallelIterator<Item = &'a T>,
        {
            self.map(|x| x.clone())
        }
    }

    pub struct Map<R> {
        items: [Option<R>; MAX],
    }

    impl<R> ParallelIterator for Map<R> {
        type Item = R;
        fn drain(self) -> [Option<R>; MAX] {
            self.items
        }
    }

    pub struct Fold<T> {
        parts: [Option<T>; MAX],
    }

    impl<T> Fold<T> {
        pub fn reduce<ID, OP>(self, identity: ID, op: OP) -> T
        where
            ID: Fn() -> T,
            OP: Fn(T, T) -> T,
        {
            let [a, b, c] = self.parts;
            let (a, b, c) = (a.unwrap(), b.unwrap(), c.unwrap());
            let sel = choose();
            // optional identity elements on either side, then one of the two bracketings
            let a = if sel & 1 != 0 { op(identity(), a) } else { a };
            let c = if sel & 2 != 0 { op(c, identity()) } else { c };
            if sel & 4 != 0 {
                op(op(a, b), c)
            } else {
                op(a, op(b, c))
            }
        }
    }

    pub trait IntoParallelIterator {
        type Iter: ParallelIterator<Item = Self::Item>;
        type Item;
        fn into_par_iter(self) -> Self::Iter;
    }

    impl<P: ParallelIterator> IntoParallelIterator for P {
        type Iter = P;
        type Item = P::Item;
        fn into_par_iter(self) -> P {
            self
        }
    }

    pub trait FromParallelIterator<T> {
        fn from_par_iter<I>(par_iter: I) -> Self
        where
            I: IntoParallelIterator<Item = T>;
    }

    /// up to three f64 by value
    pub struct Vals {
        pub xs: [f64; MAX],
        pub len: usize,
    }

    impl ParallelIterator for Vals {
        type Item = f64;
        fn drain(self) -> [Option<f64>; MAX] {
            let mut out = [None; MAX];
            let mut i = 0;
            while i < MAX {
                if i < self.len {
                    out[i] = Some(self.xs[i]);
                }
                i += 1;
            }
            out
        }
    }

    /// up to three f64 by reference
    pub struct Refs<'a> {
        pub xs: &'a [f64; MAX],
        pub len: usize,
    }

    impl<'a> ParallelIterator for Refs<'a> {
        type Item = &'a f64;
        fn drain(self) -> [Option<&'a f64>; MAX] {
            let mut out = [None; MAX];
            let mut i = 0;
            while i < MAX {
                if i < self.len {
                    out[i] = Some(&self.xs[i]);
                }
                i += 1;
            }
            out
        }
    }
}
