from common import guarded
"""C16  Empty, one-observation and constant samples follow the documented contract.  Engine K."""
import kjobs
from kani_engine import Harness


def quantile_constant(tier):
    """Quantile of 1..4 identical observations x is x for every p (exact reals, RS); the float step from there is
    0.5*x + 0.5*x == x.  The bit-precise Kani harness for this path did not terminate in 40 min."""
    import terms as tm
    from terms import T, INT, REAL
    from prove import Prover
    from executor import Exec
    import quantile_rs as qr
    pr = Prover("C16", tier)
    cr = qr.load()
    p, x = T.sym("p"), T.sym("x")
    for L in (1, 2, 3, 4):
        def build():
            st = qr.sym_state(cr, count=T.num(L, INT), p=p)
            for j in range(4):
                st["n"][j] = T.num(j + 1, INT)
            for j in range(L):
                st["q"][j] = x
            return {"self": st}, [p.ge(0), p.le(1)]
        paths = Exec(cr).run(build, lambda e, r: e.call("Quantile", "quantile", r["self"], []))
        pr.no_panic("Quantile.quantile.constant[len=%d].no_panic" % L, qr.F + "::Quantile::quantile", paths)
        pr.all_paths("Quantile.quantile.constant[len=%d].is_x" % L, qr.F + "::Quantile::quantile",
                     [(pp.pc, pp.result.eq(x)) for pp in paths if not pp.panic])
    return pr.obs


def run(tier, seed):
    # constant-stream / one-observation harnesses for order 6 are float heavy: thorough tier
    slow = ("vm6::verif_kani::mn_constant_stream_step", "vm6::verif_kani::mn_one_observation_exact")
    job = kjobs.job_for("C16", tier, timeout=3000, harness_timeout=2400, exclude=slow if tier == "quick" else ())
    job.include_module(kjobs.MM, "minmax_c16.rs", modname="verif_kani16")
    job.include_module(kjobs.QU, "quantile.rs")
    job.add(Harness("minmax_sentinels", "C16.MinMax.sentinels_one_observation", "Min::{new,min,add}, Max::{new,max,add}"),
            Harness("new_ok_in_unit_interval", "C16.Quantile.empty_is_nan", "Quantile::{new,quantile,len,is_empty}"))
    obs = guarded("C16.engine.job.run@L40", lambda: job.run())
    obs += guarded("C16.engine.quantile_constant@L41", lambda: quantile_constant(tier))
    meta = {
        "level": "proof",
        "checker_cmd": "cargo kani --no-default-features --features std (scratch copy + contracts/kani/*.rs)",
        "functions_under_contract": sorted({r["func"] for r in kjobs.REG.values() if "C16" in r["props"]}) + ["Min/Max::{new,min,max,add}", "Quantile::{new,add,quantile}"],
        "source_files": ["src/moments/mean.rs", "src/moments/variance.rs", "src/moments/skewness.rs", "src/moments/kurtosis.rs", "src/moments/mod.rs",
                         "src/weighted_mean.rs", "src/covariance.rs", "src/minmax.rs", "src/quantile.rs"],
        "extraction": "none: Kani compiles the crate; cfg(kani) harness modules in a scratch copy; define_moments! instantiated for N = 4, 6",
        "trusted_base": ["Kani 0.68 / CBMC 6.11 IEEE-754 model incl. sqrt (features = std; the default build uses libm::sqrt, assumed to be the IEEE sqrt)"],
        "assumptions": ["sentinel table: state symbolic with the count fixed (0, 1, 2.., <= 4), other fields arbitrary under is_valid; every accessor compared with the documented sentinel by class (is_nan, == 0, == +-inf)",
                        "one observation / constant streams: |x| <= 1e30 (the C01 value domain); constant streams of ANY length by induction: one_observation_exact is the base, constant_stream_step the step (state 'n >= 1 copies of x' preserved bit-exactly for symbolic n < 2^53)",
                        "the zero-variance assertion of standardized_moment(p >= 3) is the documented exception; its 'only panic' status is C04's RS obligation (must_panic / no_panic cases)",
                        "Quantile with 1..4 identical observations: decided by RS under exact reals (A-REAL); WeightedMean one observation: weights 0.5, 1, 2, 3 only (a symbolic weight needs CBMC's divider: no answer in 40 min)",
                        "configurations: define_moments! N in {4, 6} (6: thorough tier for the float-heavy harnesses)", "A-CBMC"],
        "explanation": "loop-free harnesses, full symbolic domains as stated: complete per harness.",
    }
    return obs, meta, None
