"""C19  Parallel collection gives the sequential answer under every schedule.
Engine K (bounded wiring check against a specification stub of rayon) + VL; real concurrency is not applicable."""
import os
import re
import kjobs
from kani_engine import KaniJob, Harness, KDIR
from common import VERIF, Undecided, guarded
import vl

BOUND = "<= 3 items, <= 3 contiguous chunks (possibly empty), both bracketings, optional identity elements; unwind 5"


class RayonJob(KaniJob):
    def _apply(self, root):
        super()._apply(root)
        # (c) redirect the optional rayon dependency to the specification stub
        p = os.path.join(root, "Cargo.toml")
        s = open(p).read()
        s2, n = re.subn(r'(?m)^rayon\s*=\s*\{[^}]*\}.*$', 'rayon = { path = "%s", optional = true }' % os.path.join(VERIF, "contracts", "rayon_stub"), s)
        if n != 1:
            raise Undecided("lost anchor: optional rayon dependency in Cargo.toml")
        s2 = re.sub(r'(?m)^rayon-core\s*=.*$', '', s2)
        open(p, "w").write(s2)
        lock = os.path.join(root, "Cargo.lock")
        if os.path.exists(lock):
            os.remove(lock)


def run(tier, seed):
    job = RayonJob("C19", features="std,rayon", timeout=1800, harness_timeout=1200, jobs=8)
    job.include_module(kjobs.MOD, "par_moments.rs", modname="verif_par")
    job.append(kjobs.LIB, '\n#[cfg(kani)]\nmod verif_par {\n    #![allow(unused)]\n    include!("%s");\n}\n' % os.path.join(KDIR, "par.rs"))
    job.add(Harness("par_minmax_exact", "C19.MinMax.par_collect_exact", "impl_from_par_iterator!(Min), (Max)", bounded=BOUND))
    for t in ("mean", "variance", "skewness", "kurtosis"):
        job.add(Harness("par_%s_wiring" % t, "C19.%s.par_collect_each_item_once" % t.capitalize(),
                        "impl_from_par_iterator!(%s)" % t.capitalize(), bounded=BOUND))
    job.append(kjobs.LIB, '\n#[cfg(kani)]\nmod vm4 {\n    crate::define_moments!(M, 4);\n    mod verif_kani {\n        #![allow(unused)]\n'
                          '        use super::*;\n        include!("%s");\n    }\n}\n' % os.path.join(KDIR, "moments_n.rs"))
    job.add(Harness("vm4::verif_kani::par_n::mn_par_wiring", "C19.Moments4.par_collect_each_item_once",
                    "impl_from_par_iterator!(define_moments! type)", bounded=BOUND))
    obs = guarded("C19.engine.job.run@L41", lambda: job.run())
    import glue_struct
    obs += guarded("C19.engine.glue_struct.par_obligations@L43", lambda: glue_struct.par_obligations("C19"))
    obs += guarded("C19.engine.vl.run_lemmas@L44", lambda: vl.run_lemmas("C19", ["merge_tree", "concat", "tree_equals"]))
    # The reduction "under A-RAYON the statement is C02 + C11 + C14 through the merge-tree lemma" is only as good as its
    # premises on the CURRENT tree: a merge that loses a non-empty left operand when the right one is empty (rayon folds
    # produce empty accumulators whenever a filter sits upstream) breaks parallel collection and nothing else in the wiring.
    # The premises are therefore re-established here, under their own names prefixed with `C19.premise.`.
    confirms = {}
    for mod_name in ("c02", "c11", "c14"):
        import importlib
        m = importlib.import_module(mod_name)
        try:
            p_obs, _p_meta, p_confirm = m.run(tier, seed)
        except Undecided as ex:
            from common import Obligation, UNDECIDED
            obs.append(Obligation("C19.premise.%s" % mod_name.upper(), "premise of the reduction", "premise", UNDECIDED, 0.0, str(ex)))
            continue
        for o in p_obs:
            o.name = "C19.premise." + o.name
            confirms[o.name] = p_confirm
        obs += p_obs
    meta = {
        "level": "other",
        "checker_cmd": "cargo kani --features std,rayon with rayon replaced by contracts/rayon_stub (specification stub); verus history.rs",
        "functions_under_contract": ["impl_from_par_iterator! expansions (FromParallelIterator<f64> and <&f64>) for Mean, Variance, Skewness, Kurtosis, Min, Max, define_moments!(_, 4)"],
        "source_files": ["src/macros.rs", "src/moments/mod.rs", "src/minmax.rs", "Cargo.toml"],
        "extraction": "Kani compiles the crate with feature rayon; the optional rayon dependency of the scratch copy is redirected to a specification stub",
        "trusted_base": ["A-RAYON: rayon's fold/reduce returns g-combinations, in order, of f-folds of contiguous chunks with identity results inserted anywhere (its documented contract), made executable in contracts/rayon_stub",
                         "Kani 0.68 / CBMC 6.11, kani::stub", "Verus merge-tree lemma"],
        "assumptions": ["NOT decided: real threads, work stealing, thread counts, data races (Kani has no threads; Verus would need its permission types throughout rayon); data-race freedom is what forbid(unsafe_code) plus rayon's Send bounds give and is trusted",
                        "bounded: " + BOUND + " - listed under `bounded`, never counted as proved",
                        "under A-RAYON the statement reduces to C02 + C11 + C14 through the merge-tree lemma with empty leaves: every chunking and bracketing, hence every thread count, split granularity and steal order",
                        "define_moments! types: instantiated for N = 4 (the wiring does not depend on N)",
                        "the premises C02 (merge = concatenation), C11 (empty estimator is an exact identity of merge) and C14 (Min/Max) are re-run by this check on the "
                        "current tree and reported as C19.premise.* obligations with the assumptions of their own checks (A-REAL for C02)"],
        "explanation": "Wiring of impl_from_par_iterator! (identity = new, fold = add, reduce = merge in order, both f64 and &f64) against an executable "
                       "specification of rayon's fold/reduce: every item is absorbed exactly once for every split and bracketing (multiset recorder), Min/Max exact. "
                       "Bounded in the number of items/chunks; the unbounded claim over chunkings is the Verus lemma plus C02/C11/C14.",
    }
    def confirm(ob):
        f = confirms.get(ob.name)
        return f(ob) if f else None
    return obs, meta, confirm
