from common import guarded
"""C01  Streaming mean and variance equal the exact statistics of the data.  Engine RS + VL."""
import terms as tm
from terms import T, UINT, REAL, TRUE, And, Not, Or, real
from prove import Prover
import moments_rs as mr
from moments_rs import n_cases
import vl

A_REAL = "A-REAL: f64 arithmetic is treated as exact real arithmetic; the rounding envelope C*n*kappa*2^-53 of the statement is NOT proved (DESIGN.md section 5)"
A_INT = "A-INT: counts stay below 2^53 (u64 -> f64 exact, no wrap-around)"
A_LIB = "A-LIB: assumed contracts of ToPrimitive::to_f64 (exact, Some), Float::sqrt (r >= 0, r^2 = x, requires x >= 0), Option::unwrap, Clone::clone"
EXTRACTION = ("rsx re-parses /repo/src with syn on every run and the executor interprets the real function bodies; "
              "dropped: attributes, doc comments, Debug/serde derives, impl_from_iterator!/impl_extend!/impl_from_par_iterator! invocations; "
              "reinterpreted: f64 as exact reals, u64 as unbounded integers with no-underflow obligations")


def variance_accessors(pr, cr, ty="Variance", fname=None, path=lambda st: st):
    """Accessor contracts shared by Variance and the types that re-export them."""
    fname = fname or mr.FILES[ty]
    avg, M2 = T.sym("avg"), T.sym("M2")
    sums = {2: M2, 3: T.sym("M3"), 4: T.sym("M4")}
    mk = lambda n: mr.fixed_state(cr, ty, n, avg, sums)
    rz = [M2.ge(0)]
    acc = mr.check_accessor
    acc(pr, cr, ty, fname, "len", [("any", T.sym("n", UINT), [], ("eq", T.sym("n", UINT)))], mk)
    acc(pr, cr, ty, fname, "is_empty", [("any", T.sym("n", UINT), [T.sym("n", UINT).ge(0)], ("bool", T.sym("n", UINT).eq(0)))], mk)
    acc(pr, cr, ty, fname, "mean", n_cases(1, lambda n: ("eq", avg)), mk)
    if ty == "Mean":
        return
    acc(pr, cr, ty, fname, "population_variance", n_cases(1, lambda n: ("eq", M2 / real(n)), extra_hyps=rz), mk)
    acc(pr, cr, ty, fname, "sample_variance", n_cases(2, lambda n: ("eq", M2 / (real(n) - 1)), extra_hyps=rz), mk)
    if ty == "Variance":
        acc(pr, cr, ty, fname, "variance_of_mean",
            n_cases(2, lambda n: ("eq", M2 / ((real(n) - 1) * real(n))),
                    below=lambda k: ("nan",) if k == 0 else ("eq", T.num(0, REAL)), extra_hyps=rz), mk)
        acc(pr, cr, ty, fname, "error",
            n_cases(2, lambda n: ("root", M2 / ((real(n) - 1) * real(n))),
                    below=lambda k: ("nan",) if k == 0 else ("eq", T.num(0, REAL)), extra_hyps=rz), mk)
    else:
        acc(pr, cr, ty, fname, "error_mean",
            n_cases(2, lambda n: ("root", M2 / ((real(n) - 1) * real(n))),
                    below=lambda k: ("nan",) if k == 0 else ("eq", T.num(0, REAL)), extra_hyps=rz), mk)


def run(tier, seed):
    pr = Prover("C01", tier)
    cr = mr.load_crate()
    for ty in ("Mean", "Variance"):
        f = mr.FILES[ty]
        order = mr.ORDER[ty]
        add_call, merge_call = mr.std_calls(ty)
        mk = lambda P, tag="", ty=ty: mr.rep_state(cr, ty, P, tag)
        mr.check_new(pr, cr, ty, mr.read_state, f)
        mr.check_new(pr, cr, ty, mr.read_state, f, ctor="default")
        mr.check_add(pr, cr, ty, order, f + "::<%s as Estimate>::add" % ty, mk, mr.read_state, add_call, mr.keyfmt_std)
        variance_accessors(pr, cr, ty)
    # estimate() is the headline statistic
    avg, M2, n = T.sym("avg"), T.sym("M2"), T.sym("n", UINT)
    mr.check_accessor(pr, cr, "Mean", mr.FILES["Mean"], "estimate", n_cases(1, lambda n: ("eq", avg)),
                      lambda n: mr.fixed_state(cr, "Mean", n, avg, {}))
    mr.check_accessor(pr, cr, "Variance", mr.FILES["Variance"], "estimate",
                      n_cases(1, lambda n: ("eq", M2 / real(n)), extra_hyps=[M2.ge(0)]),
                      lambda n: mr.fixed_state(cr, "Variance", n, avg, {2: M2}))
    obs = pr.obs
    obs += guarded("C01.engine.vl.run_lemmas@L65", lambda: vl.run_lemmas("C01", ["lemma_fold", "swap"]))
    import envelope
    obs += guarded("C01.engine.envelope.guard_moments@L67", lambda: envelope.guard_moments("C01", "Variance", ["mean", "population_variance", "sample_variance", "variance_of_mean", "error"],
                                  "src/moments/variance.rs::Variance (add-only histories)"))
    obs += guarded("C01.engine.envelope.guard_moments@L69", lambda: envelope.guard_moments("C01", "Mean", ["mean"], "src/moments/mean.rs::Mean (add-only histories)"))
    import rs_crosscheck
    obs += guarded("C01.engine.rs_crosscheck", lambda: rs_crosscheck.crosscheck("C01", ['Mean', 'Variance']))
    meta = {
        "level": "proof",
        "checker_cmd": "./check C01 (rsx -> RS executor -> sympy normal form / z3 %s QF_NRA; verus history.rs)" % __import__("backends").Z3_VERSION,
        "functions_under_contract": ["Mean::new", "Mean::default", "<Mean as Estimate>::add", "Mean::increment", "Mean::add_inner", "Mean::mean", "Mean::len",
                                     "Mean::is_empty", "<Mean as Estimate>::estimate",
                                     "Variance::new", "Variance::default", "<Variance as Estimate>::add", "Variance::increment", "Variance::add_inner",
                                     "Variance::mean", "Variance::len", "Variance::is_empty", "Variance::population_variance",
                                     "Variance::sample_variance", "Variance::variance_of_mean", "Variance::error",
                                     "<Variance as Estimate>::estimate"],
        "source_files": ["src/moments/mean.rs", "src/moments/variance.rs"],
        "extraction": EXTRACTION,
        "trusted_base": ["rsx + RS executor (own code)", "sympy polynomial arithmetic", "z3 5.1 nlsat", "Verus (history lemma)"],
        "assumptions": [A_REAL, A_INT, A_LIB,
                        "lifting to every sequence and independence of order: Verus lemma_fold / commutative-swap lemma over the power-sum monoid",
                        "the forward-error envelope is exercised only by a BOUNDED known-answer corpus (envelope_guard: ill-conditioned samples with offsets up to 1e12 x spread, listed under `bounded`); "
                        "the forward-error envelope and its linearity in kappa are not decided by this check (no installed deductive verifier reasons about f64 rounding of this code)"],
        "explanation": "rep(state, power sums) is preserved by add for an arbitrary symbolic summary (all n, all inputs); every accessor equals the textbook statistic of the summary or its documented sentinel.",
    }
    from confirm_rs import confirm_moment
    return obs, meta, lambda ob: envelope.confirm_from_cex(ob) or confirm_moment(ob)
