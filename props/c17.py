from common import guarded
"""C17  Variances are never negative and means stay within the data range.  Engine K + RS."""
import terms as tm
from terms import T, INT, UINT, REAL, TRUE, FALSE, And, Not, Or, real, ite
from prove import Prover
from executor import Crate, Exec, Ref
import kjobs
import moments_rs as mr
from moments_rs import NMAX
from c01 import A_REAL, A_INT, A_LIB, EXTRACTION


def mean_in_range(pr):
    """n*lo <= S1 <= n*hi as an inductive invariant of the state (base, add, merge), real semantics:
    state (n, avg) with lo <= avg <= hi (n >= 1); add(x) gives min(lo,x) <= avg' <= max(hi,x)."""
    cr = mr.load_crate()
    x, lo, hi = T.sym("x"), T.sym("lo"), T.sym("hi")
    for ty in ("Mean", "Variance", "Skewness", "Kurtosis"):
        f = mr.FILES[ty] + "::<%s as Estimate>::add" % ty
        avg = T.sym("avg")
        sums = {2: T.sym("M2"), 3: T.sym("M3"), 4: T.sym("M4")}
        for case, n, hyps in (("n=0", T.num(0, UINT), []),
                              ("n>=1", T.sym("n", UINT), [T.sym("n", UINT).ge(1), T.sym("n", UINT).lt(NMAX), lo.le(avg), avg.le(hi)])):
            paths = Exec(cr).run(lambda: ({"self": mr.fixed_state(cr, ty, n, avg, sums)}, list(hyps)),
                                 lambda e, r: e.call(ty, "add", r["self"], [x]))
            goals = []
            for p in paths:
                if p.panic:
                    continue
                a2 = mr.read_state(p.state["self"])["avg"]
                if case == "n=0":
                    goals.append((p.pc, a2.eq(x)))
                else:
                    goals.append((p.pc, And(a2.ge(ite(x.lt(lo), x, lo)), a2.le(ite(x.gt(hi), x, hi)))))
            pr.all_paths("%s.add[%s].mean_in_range" % (ty, case), f, goals)
        fm = mr.FILES[ty] + "::<%s as Merge>::merge" % ty
        na, nb = T.sym("na", UINT), T.sym("nb", UINT)
        aa, ab = T.sym("avga"), T.sym("avgb")
        sa = {2: T.sym("M2a"), 3: T.sym("M3a"), 4: T.sym("M4a")}
        sb = {2: T.sym("M2b"), 3: T.sym("M3b"), 4: T.sym("M4b")}
        hyps = [na.ge(1), nb.ge(1), na.lt(NMAX), nb.lt(NMAX), lo.le(aa), aa.le(hi), lo.le(ab), ab.le(hi)]
        paths = Exec(cr).run(lambda: ({"self": mr.fixed_state(cr, ty, na, aa, sa), "other": mr.fixed_state(cr, ty, nb, ab, sb)}, list(hyps)),
                             lambda e, r: e.call(ty, "merge", r["self"], [Ref(r["other"])]))
        goals = []
        for p in paths:
            if not p.panic:
                a2 = mr.read_state(p.state["self"])["avg"]
                goals.append((p.pc, And(a2.ge(lo), a2.le(hi))))
        pr.all_paths("%s.merge[both].mean_in_range" % ty, fm, goals)


def mean_in_range_cov_moments(pr):
    """The same inductive range invariant for Covariance (both coordinates) and define_moments! (N = 4)."""
    from c09 import F as FC
    cr = Crate()
    cr.load_file(FC)
    x, y, lo, hi = T.sym("x"), T.sym("y"), T.sym("lo"), T.sym("hi")
    n = T.sym("n", UINT)

    def cov(nv, tag=""):
        return cr.mk("Covariance", avg_x=T.sym("ax" + tag), avg_y=T.sym("ay" + tag), sum_x_2=T.sym("cxx" + tag), sum_y_2=T.sym("cyy" + tag),
                     sum_prod=T.sym("cxy" + tag), n=nv)
    ax, ay = T.sym("ax"), T.sym("ay")
    hyps = [n.ge(1), n.lt(NMAX), lo.le(ax), ax.le(hi), lo.le(ay), ay.le(hi)]
    paths = Exec(cr).run(lambda: ({"self": cov(n)}, list(hyps)), lambda e, r: e.call("Covariance", "add", r["self"], [x, y]))
    pr.all_paths("Covariance.add[n>=1].means_in_range", FC + "::Covariance::add",
                 [(p.pc, And(p.state["self"]["avg_x"].ge(ite(x.lt(lo), x, lo)), p.state["self"]["avg_x"].le(ite(x.gt(hi), x, hi)),
                             p.state["self"]["avg_y"].ge(ite(y.lt(lo), y, lo)), p.state["self"]["avg_y"].le(ite(y.gt(hi), y, hi)))) for p in paths if not p.panic])
    paths = Exec(cr).run(lambda: ({"self": cov(T.num(0, UINT))}, []), lambda e, r: e.call("Covariance", "add", r["self"], [x, y]))
    pr.all_paths("Covariance.add[n=0].means_are_xy", FC + "::Covariance::add",
                 [(p.pc, And(p.state["self"]["avg_x"].eq(x), p.state["self"]["avg_y"].eq(y))) for p in paths if not p.panic])
    na, nb = T.sym("na", UINT), T.sym("nb", UINT)
    hyps = [na.ge(1), nb.ge(1), na.lt(NMAX), nb.lt(NMAX)] + [c for t in ("a", "b") for c in (lo.le(T.sym("ax" + t)), T.sym("ax" + t).le(hi), lo.le(T.sym("ay" + t)), T.sym("ay" + t).le(hi))]
    paths = Exec(cr).run(lambda: ({"self": cov(na, "a"), "other": cov(nb, "b")}, list(hyps)),
                         lambda e, r: e.call("Covariance", "merge", r["self"], [Ref(r["other"])]))
    pr.all_paths("Covariance.merge[both].means_in_range", FC + "::<Covariance as Merge>::merge",
                 [(p.pc, And(p.state["self"]["avg_x"].ge(lo), p.state["self"]["avg_x"].le(hi), p.state["self"]["avg_y"].ge(lo), p.state["self"]["avg_y"].le(hi)))
                  for p in paths if not p.panic])
    crm, name = mr.load_moments_crate(4)
    from executor import Arr
    f = "src/moments/mod.rs::define_moments!(_, 4)"

    def mom(nv, tag=""):
        return crm.mk(name, n=nv, avg=T.sym("avg" + tag), m=Arr([T.sym("m%d%s" % (k, tag)) for k in (2, 3, 4)]))
    avg = T.sym("avg")
    hyps = [n.ge(1), n.lt(NMAX), lo.le(avg), avg.le(hi)]
    paths = Exec(crm).run(lambda: ({"self": mom(n)}, list(hyps)), lambda e, r: e.call(name, "add", r["self"], [x]))
    pr.all_paths("Moments4.add[n>=1].mean_in_range", f + "::add",
                 [(p.pc, And(p.state["self"]["avg"].ge(ite(x.lt(lo), x, lo)), p.state["self"]["avg"].le(ite(x.gt(hi), x, hi)))) for p in paths if not p.panic])
    hyps = [na.ge(1), nb.ge(1), na.lt(NMAX), nb.lt(NMAX), lo.le(T.sym("avga")), T.sym("avga").le(hi), lo.le(T.sym("avgb")), T.sym("avgb").le(hi)]
    paths = Exec(crm).run(lambda: ({"self": mom(na, "a"), "other": mom(nb, "b")}, list(hyps)),
                          lambda e, r: e.call(name, "merge", r["self"], [Ref(r["other"])]))
    pr.all_paths("Moments4.merge[both].mean_in_range", f + "::merge",
                 [(p.pc, And(p.state["self"]["avg"].ge(lo), p.state["self"]["avg"].le(hi))) for p in paths if not p.panic])


def weights(pr):
    """Weighted mean within range and 0 < W2 <= W^2 <= n*W2 (hence 1 <= effective_len <= len) as inductive invariants."""
    import c08
    cr = c08.load()
    x, w, lo, hi = T.sym("x"), T.sym("w"), T.sym("lo"), T.sym("hi")
    F = c08.F
    W, a = T.sym("W"), T.sym("wavg")
    # WeightedMean::add keeps the mean inside [min, max] for w >= 0
    for case, Wv, hyps in (("W=0", c08.ZERO, [w.gt(0)]), ("W>0", W, [W.gt(0), w.ge(0), lo.le(a), a.le(hi)])):
        paths = Exec(cr).run(lambda: ({"self": cr.mk("WeightedMean", weight_sum=Wv, weighted_avg=a)}, list(hyps)),
                             lambda e, r: e.call("WeightedMean", "add", r["self"], [x, w]))
        goals = []
        for p in paths:
            if p.panic:
                continue
            a2 = p.state["self"]["weighted_avg"]
            goals.append((p.pc, a2.eq(x) if case == "W=0" else And(a2.ge(ite(x.lt(lo), x, lo)), a2.le(ite(x.gt(hi), x, hi)))))
        pr.all_paths("WeightedMean.add[%s].mean_in_range" % case, F + "::WeightedMean::add", goals)
    Wa, Wb, aa, ab = T.sym("Wa"), T.sym("Wb"), T.sym("wavga"), T.sym("wavgb")
    hyps = [Wa.gt(0), Wb.gt(0), lo.le(aa), aa.le(hi), lo.le(ab), ab.le(hi)]
    paths = Exec(cr).run(lambda: ({"self": cr.mk("WeightedMean", weight_sum=Wa, weighted_avg=aa),
                                   "other": cr.mk("WeightedMean", weight_sum=Wb, weighted_avg=ab)}, list(hyps)),
                         lambda e, r: e.call("WeightedMean", "merge", r["self"], [Ref(r["other"])]))
    pr.all_paths("WeightedMean.merge[both].mean_in_range", F + "::<WeightedMean as Merge>::merge",
                 [(p.pc, And(p.state["self"]["weighted_avg"].ge(lo), p.state["self"]["weighted_avg"].le(hi))) for p in paths if not p.panic])
    # realizable weights: inv(n, W, W2) := W2 <= W^2 <= n*W2, W >= 0, W2 >= 0   (base: all 0)
    n, W2 = T.sym("n", UINT), T.sym("W2")
    inv = lambda nn, WW, WW2: And((WW2).le(WW * WW), (WW * WW).le(real(nn) * WW2), WW.ge(0), WW2.ge(0))
    avg, M2 = T.sym("avg"), T.sym("M2")

    def wme(nv, Wv, W2v, tag=""):
        return cr.mk("WeightedMeanWithError", weight_sum_sq=W2v, weighted_avg=cr.mk("WeightedMean", weight_sum=Wv, weighted_avg=T.sym("wavg" + tag)),
                     unweighted_avg=mr.fixed_state(cr, "Variance", nv, T.sym("avg" + tag), {2: T.sym("M2" + tag)}))

    def rd(st):
        return mr.read_state(st["unweighted_avg"])["n"], st["weighted_avg"]["weight_sum"], st["weight_sum_sq"]
    hyps = [n.ge(0), n.lt(NMAX), inv(n, W, W2), w.ge(0)]
    paths = Exec(cr).run(lambda: ({"self": wme(n, W, W2)}, list(hyps)),
                         lambda e, r: e.call("WeightedMeanWithError", "add", r["self"], [x, w]))
    pr.all_paths("WeightedMeanWithError.add.inv_weights", F + "::WeightedMeanWithError::add",
                 [(p.pc, inv(*rd(p.state["self"]))) for p in paths if not p.panic])
    na, nb, Wa2, Wb2 = T.sym("na", UINT), T.sym("nb", UINT), T.sym("W2a"), T.sym("W2b")
    hyps = [na.ge(0), nb.ge(0), na.lt(NMAX), nb.lt(NMAX), inv(na, Wa, Wa2), inv(nb, Wb, Wb2)]
    paths = Exec(cr).run(lambda: ({"self": wme(na, Wa, Wa2, "a"), "other": wme(nb, Wb, Wb2, "b")}, list(hyps)),
                         lambda e, r: e.call("WeightedMeanWithError", "merge", r["self"], [Ref(r["other"])]))
    pr.all_paths("WeightedMeanWithError.merge.inv_weights", F + "::<WeightedMeanWithError as Merge>::merge",
                 [(p.pc, inv(*rd(p.state["self"]))) for p in paths if not p.panic])
    paths = Exec(cr).run(lambda: ({}, []), lambda e, r: e.call("WeightedMeanWithError", "new", None, []))
    pr.all_paths("WeightedMeanWithError.new.inv_weights", F + "::WeightedMeanWithError::new",
                 [(p.pc, inv(*rd(p.result))) for p in paths if not p.panic])
    # effective_len in [1, len] for positive total weight follows from the invariant
    hyps = [n.ge(1), n.lt(NMAX), inv(n, W, W2), W.gt(0)]
    paths = Exec(cr).run(lambda: ({"self": wme(n, W, W2)}, list(hyps)),
                         lambda e, r: e.call("WeightedMeanWithError", "effective_len", r["self"], []))
    pr.sides("WeightedMeanWithError.effective_len", F + "::WeightedMeanWithError::effective_len", paths)
    pr.all_paths("WeightedMeanWithError.effective_len.in_1_len", F + "::WeightedMeanWithError::effective_len",
                 [(p.pc, And(p.result.ge(1), p.result.le(real(n)))) for p in paths if not p.panic])


def multinomial(pr):
    """Histogram bin variance c*(1 - c*(1/total)) lies in [0, total/4] for 0 <= c <= total, total >= 1 (real semantics)."""
    cr = Crate()
    cr.load_file("src/traits.rs")
    c, tot = T.sym("c"), T.sym("total")
    hyps = [c.ge(0), c.le(tot), tot.ge(1)]
    paths = Exec(cr).run(lambda: ({}, list(hyps)), lambda e, r: e.call(None, "multinomial_variance", None, [c, 1 / tot]))
    pr.all_paths("Histogram.multinomial_variance.in_0_total_over_4", "src/traits.rs::multinomial_variance",
                 [(p.pc, And(p.result.ge(0), p.result.le(tot / 4))) for p in paths if not p.panic])
    pr.all_paths("Histogram.multinomial_variance.formula", "src/traits.rs::multinomial_variance",
                 [(p.pc, p.result.eq(c * (1 - c / tot))) for p in paths if not p.panic])


def extreme_weights_corpus():
    """BOUNDED: weighted mean inside [min, max] of the samples for weights and samples at magnitudes where exact reals
    say nothing (subnormal weights, 1e-200, 1e200; samples from 1e-300 to 1e150).  Three obligations: every add-only
    history; merges whose products weight*mean stay inside the f64 range; merges whose products under- or overflow.
    effective_len in [1, len] is checked for weights in [1e-150, 1e150] only (beyond that W^2 or sum w^2 leave the f64
    range, which the claim cannot be meant to cover)."""
    import replay
    from common import Obligation, DISCHARGED, REFUTED, UNDECIDED
    sub = 5e-324
    cases = [
        ([(1.7, sub)], False), ([(0.3, sub), (0.9, 3 * sub)], False), ([(1.2345e-120 * (1 + k * 2.0 ** -50), 1e-200) for k in range(4)], False),
        ([(0.51, 20 * sub)] * 10, False), ([(1e150, 1e-200), (-1e150, 1e-200), (3.0, 1e-200)], False),
        ([(1.0, 1e200), (2.0, 1e200), (4.0, 3e200)], False), ([(1e-300, 1.0), (3e-300, 2.0), (2e-300, 0.5)], False),
        ([(1.0, 1e-150), (2.0, 1e150), (3.0, 1.0)], True), ([(5.0, 1e150), (7.0, 1e150), (6.0, 1e150)], True),
        ([(5.0, 1e-150), (7.0, 1e-150), (6.0, 3e-150), (8.0, 0.0)], True), ([(1e150, 1e-6), (-1e150, 1e6), (0.0, 1.0)], True),
        ([(1e150, 1e200), (1.5e150, 2e200)], False), ([(0.25, sub), (0.75, sub), (0.5, 2 * sub)], False),
    ]

    def products_in_range(pts):
        return all(w == 0 or x == 0 or 1e-290 <= abs(w * x) <= 1e290 for x, w in pts)
    groups = {"add_only": [], "merge_products_representable": [], "merge_products_outside_f64_range": []}
    for pts, eff in cases:
        groups["add_only"].append((pts, eff, {"type": "WeightedMeanWithError", "ctor": ["new"], "ops": [["add2", x, w] for x, w in pts],
                                              "observe": ["weighted_mean", "effective_len", "len"]}, "weighted_mean"))
        g = "merge_products_representable" if products_in_range(pts) else "merge_products_outside_f64_range"
        if len(pts) >= 2:
            groups[g].append((pts, False, {"type": "WeightedMean", "ctor": ["new"], "ops": [["add2", x, w] for x, w in pts[:1]] + [
                ["merge", {"type": "WeightedMean", "ctor": ["new"], "ops": [["add2", x, w] for x, w in pts[1:]]}]], "observe": ["mean"]}, "mean"))
    out = []
    fn = "src/weighted_mean.rs::{WeightedMean,WeightedMeanWithError}::{add,merge,mean,effective_len} on the real crate"
    for gname, items in groups.items():
        name = "C17.weighted.extreme_weights.%s" % gname
        bound = "%d weighted samples with subnormal / 1e-200 / 1e200 weights and samples from 1e-300 to 1e150" % len(items)
        results = replay.run_programs([it[2] for it in items], timeout=900)
        verdict = None
        for (pts, eff, pg, key), res in zip(items, results):
            if res.get("error"):
                verdict = Obligation(name, fn, "replay+oracle", UNDECIDED, 0.0, "replay failed: " + res["error"], bounded=bound, kind="bounded")
                break
            xs = [x for x, w in pts if w > 0]
            lo, hi, n = min(xs), max(xs), len(pts)
            slack = 8 * n * 2.0 ** -53 * max(abs(lo), abs(hi))
            v = res["obs"].get(key)
            if res["panic"] or v is None or v != v or not (lo - slack <= v <= hi + slack):
                verdict = Obligation(name, fn, "replay+oracle", REFUTED, 0.0, "%s = %r for samples in [%r, %r] (weights %s)" % (key, v, lo, hi, [repr(w) for _, w in pts][:4]),
                                     cex={"class": {"group": gname, "kind": "mean_outside_range"}, "program": pg, "statistic": key,
                                          "expected": "within [%r, %r]" % (lo, hi), "actual": repr(v)}, bounded=bound, kind="bounded")
                break
            if eff:
                e = res["obs"].get("effective_len")
                if e is None or e != e or not (1 - n * 2.0 ** -50 <= e <= n * (1 + n * 2.0 ** -50)):
                    verdict = Obligation(name, fn, "replay+oracle", REFUTED, 0.0, "effective_len = %r for %d observations" % (e, n),
                                         cex={"class": {"group": gname, "kind": "effective_len"}, "program": pg, "statistic": "effective_len",
                                              "expected": "within [1, %d]" % n, "actual": repr(e)}, bounded=bound, kind="bounded")
                    break
        out.append(verdict or Obligation(name, fn, "replay+oracle", DISCHARGED, 0.0, "weighted means inside the sample range", bounded=bound, kind="bounded",
                                         text="weighted mean range at extreme weights"))
    return out


def confirm(ob):
    c = ob.cex or {}
    if c.get("program") and c.get("statistic"):
        return {"program": c["program"], "expected": {c["statistic"]: c.get("expected")}, "actual": {c["statistic"]: c.get("actual")},
                "confirmed_on_real_code": True}
    return None


def run(tier, seed):
    # float-heavy for CBMC (Moments4.add 470 s, Moments6.add 780 s, Moments6.merge 450 s, Kurtosis.merge 190 s): thorough tier
    slow = ("kurtosis_nonneg_merge", "vm4::verif_kani::mn_nonneg_add", "vm6::verif_kani::mn_nonneg_add", "vm6::verif_kani::mn_nonneg_merge")
    obs = guarded("C17.engine.kjobs.job_for@L239", lambda: kjobs.job_for("C17", tier, timeout=3000, harness_timeout=2400, exclude=slow if tier == "quick" else ()).run())
    pr = Prover("C17", tier)
    mean_in_range(pr)
    mean_in_range_cov_moments(pr)
    weights(pr)
    multinomial(pr)
    obs += pr.obs
    obs += guarded("C17.engine.extreme_weights_corpus@L246", lambda: extreme_weights_corpus())
    meta = {
        "level": "proof",
        "checker_cmd": "cargo kani (scratch copy + contracts/kani/{moments,covariance,moments_n}.rs); rsx -> RS executor -> z3 QF_NRA",
        "functions_under_contract": sorted({r["func"] for r in kjobs.REG.values() if "C17" in r["props"]}) +
                                    ["<Mean|Variance|Skewness|Kurtosis as Estimate>::add / Merge::merge (mean_in_range)",
                                     "WeightedMean::{add,merge}", "WeightedMeanWithError::{new,add,merge,effective_len}", "traits::multinomial_variance"],
        "source_files": ["src/moments/variance.rs", "src/moments/mod.rs", "src/covariance.rs", "src/weighted_mean.rs", "src/traits.rs"],
        "extraction": EXTRACTION + "; K: cfg(kani) harness modules in a scratch copy",
        "trusted_base": ["Kani 0.68 / CBMC 6.11 (bit-precise sign invariants)", "rsx + RS executor, z3 5.1 (range invariants under exact reals)"],
        "assumptions": ["K part (all f64, no restriction on kappa): !(sum_2 < 0) resp. m[0], sum_x_2, sum_y_2 is an inductive invariant of add and merge, so no variance accessor is ever < 0; 'defined' means not NaN; that no NaN arises for |x| <= 1e150 is not decided bit-precisely",
                        A_REAL + " for: mean within [min,max], weighted mean within range for w >= 0, W2 <= W^2 <= n*W2, effective_len in [1,len], bin variance in [0,total/4] (the 'up to C*n*2^-53*max|x|' slack is exactly what real semantics leaves out; a float bound |avg| <= B is not inductive)",
                        A_INT, "configurations: define_moments! N in {4, 6}",
                        "weights / samples at magnitudes where f64 under- or overflows are exercised only by the BOUNDED corpus weighted.extreme_weights_corpus (effective_len only for weights in [1e-150, 1e150])"],
        "explanation": "sign invariants bit-precisely by Kani on fully symbolic states; range invariants as inductive invariants (base, add, merge) under exact reals.",
    }
    return obs, meta, confirm
