from common import guarded
"""C09  Covariance reports exact means, variances, covariance and Pearson correlation.  Engine RS + VL."""
import terms as tm
from terms import T, UINT, REAL, TRUE, FALSE, And, Not, Or, real
from prove import Prover
from executor import Crate, Exec, Ref
import moments_rs as mr
from moments_rs import n_cases, NMAX
import vl
from c01 import A_REAL, A_INT, A_LIB, EXTRACTION

F = "src/covariance.rs"
FIELDS = ("avg_x", "sum_x_2", "avg_y", "sum_y_2", "sum_prod", "n")


class Pairs:
    """(n, Sx, Sy, Sxx, Syy, Sxy)"""
    def __init__(self, n, sx, sy, sxx, syy, sxy):
        self.n, self.sx, self.sy, self.sxx, self.syy, self.sxy = n, sx, sy, sxx, syy, sxy

    @staticmethod
    def symbolic(tag):
        return Pairs(T.sym("n" + tag, UINT), *[T.sym(s + tag) for s in ("Sx", "Sy", "Sxx", "Syy", "Sxy")])

    @staticmethod
    def empty():
        z = T.num(0, REAL)
        return Pairs(T.num(0, UINT), z, z, z, z, z)

    def push(self, x, y):
        return Pairs(self.n + 1, self.sx + x, self.sy + y, self.sxx + x * x, self.syy + y * y, self.sxy + x * y)

    def plus(self, o):
        return Pairs(self.n + o.n, self.sx + o.sx, self.sy + o.sy, self.sxx + o.sxx, self.syy + o.syy, self.sxy + o.sxy)

    def rep(self):
        n = real(self.n)
        return {"n": self.n, "avg_x": self.sx / n, "avg_y": self.sy / n, "sum_x_2": self.sxx - self.sx * self.sx / n,
                "sum_y_2": self.syy - self.sy * self.sy / n, "sum_prod": self.sxy - self.sx * self.sy / n}


def rep_state(cr, P, tag):
    if P is None:
        z = T.num(0, REAL)
        return cr.mk("Covariance", avg_x=T.sym("ax0" + tag), avg_y=T.sym("ay0" + tag), sum_x_2=z, sum_y_2=z, sum_prod=z, n=T.num(0, UINT))
    return cr.mk("Covariance", **P.rep())


def compare(pr, pre, fname, p, P, observable_avg=True, cls=None):
    got = p.state["self"]
    want = P.rep()
    for k in FIELDS:
        if k in ("avg_x", "avg_y") and not observable_avg:
            continue
        pr.eq("%s.rep_%s" % (pre, k), fname, p.pc, real(got[k]), real(want[k]), cls=dict(cls or {}, field=k))


def run(tier, seed):
    pr = Prover("C09", tier)
    cr = Crate()
    cr.load_file(F)
    x, y = T.sym("x"), T.sym("y")
    # new / default
    for ctor in ("new", "default"):
        paths = Exec(cr).run(lambda: ({}, []), lambda e, roots: e.call("Covariance", ctor, None, []))
        for p in paths:
            for k in ("n", "sum_x_2", "sum_y_2", "sum_prod"):
                pr.eq("Covariance.%s.rep_%s" % (ctor, k), F + "::Covariance::" + ctor, p.pc, real(p.result[k]), T.num(0, REAL))
    # add
    fadd = F + "::Covariance::add"
    for case in ("n=0", "n>=1"):
        P = None if case == "n=0" else Pairs.symbolic("")
        hyps = [] if P is None else [P.n.ge(1), P.n.lt(NMAX)]
        Ppost = (P or Pairs.empty()).push(x, y)
        paths = Exec(cr).run(lambda: ({"self": rep_state(cr, P, "")}, list(hyps)),
                             lambda e, roots: e.call("Covariance", "add", roots["self"], [x, y]))
        pre = "Covariance.add[%s]" % case
        pr.feasible(pre + ".hyps_sat", fadd, hyps)
        pr.no_panic(pre + ".no_panic", fadd, paths)
        pr.sides(pre, fadd, paths)
        for p in paths:
            if not p.panic:
                compare(pr, pre, fadd, p, Ppost, cls={"case": case})
    # merge
    fm = F + "::<Covariance as Merge>::merge"
    for cname, a_ne, b_ne in (("both", True, True), ("b_empty", True, False), ("a_empty", False, True), ("both_empty", False, False)):
        Pa = Pairs.symbolic("a") if a_ne else None
        Pb = Pairs.symbolic("b") if b_ne else None
        hyps = ([Pa.n.ge(1), Pa.n.lt(NMAX)] if a_ne else []) + ([Pb.n.ge(1), Pb.n.lt(NMAX)] if b_ne else [])
        Pu = (Pa or Pairs.empty()).plus(Pb or Pairs.empty())
        paths = Exec(cr).run(lambda: ({"self": rep_state(cr, Pa, "a"), "other": rep_state(cr, Pb, "b")}, list(hyps)),
                             lambda e, roots: e.call("Covariance", "merge", roots["self"], [Ref(roots["other"])]))
        pre = "Covariance.merge[%s]" % cname
        pr.feasible(pre + ".hyps_sat", fm, hyps)
        pr.no_panic(pre + ".no_panic", fm, paths)
        pr.sides(pre, fm, paths)
        for p in paths:
            if p.panic:
                continue
            pr.eq(pre + ".len", fm, p.pc, real(p.state["self"]["n"]), real(Pu.n), cls={"case": cname})
            if a_ne or b_ne:
                compare(pr, pre, fm, p, Pu, cls={"case": cname})
            else:
                for k in ("sum_x_2", "sum_y_2", "sum_prod"):
                    pr.eq("%s.rep_%s" % (pre, k), fm, p.pc, p.state["self"][k], T.num(0, REAL))
            ob = rep_state(cr, Pb, "b")
            same = all(ob[k] == p.state["other"][k] for k in FIELDS)
            pr.holds(pre + ".frame_other", fm, [], TRUE if same else FALSE)
    # accessors over free symbols
    ax, ay, cxx, cyy, cxy = T.sym("avg_x"), T.sym("avg_y"), T.sym("Cxx"), T.sym("Cyy"), T.sym("Cxy")
    mk = lambda n: cr.mk("Covariance", avg_x=ax, avg_y=ay, sum_x_2=cxx, sum_y_2=cyy, sum_prod=cxy, n=n)
    cs = [cxx.ge(0), cyy.ge(0), (cxy * cxy).le(cxx * cyy)]   # realizable: variances >= 0 and Cauchy-Schwarz (proved inductive below)
    acc = lambda name, cases: mr.check_accessor(pr, cr, "Covariance", F, name, cases, mk)
    nsym = T.sym("n", UINT)
    acc("len", [("any", nsym, [], ("eq", nsym))])
    acc("is_empty", [("any", nsym, [nsym.ge(0)], ("bool", nsym.eq(0)))])
    acc("mean_x", n_cases(1, lambda n: ("eq", ax)))
    acc("mean_y", n_cases(1, lambda n: ("eq", ay)))
    acc("population_variance_x", n_cases(1, lambda n: ("eq", cxx / real(n)), extra_hyps=cs))
    acc("population_variance_y", n_cases(1, lambda n: ("eq", cyy / real(n)), extra_hyps=cs))
    acc("sample_variance_x", n_cases(2, lambda n: ("eq", cxx / (real(n) - 1)), extra_hyps=cs))
    acc("sample_variance_y", n_cases(2, lambda n: ("eq", cyy / (real(n) - 1)), extra_hyps=cs))
    acc("population_covariance", n_cases(1, lambda n: ("eq", cxy / real(n)), extra_hyps=cs))
    acc("sample_covariance", n_cases(2, lambda n: ("eq", cxy / (real(n) - 1)), extra_hyps=cs))
    pear = lambda n: ("pred", lambda r: And((r * tm.sqrt(cxx * cyy)).eq(cxy), r.ge(-1), r.le(1)))
    acc("pearson", n_cases(2, pear, extra_hyps=cs + [cxx.gt(0), cyy.gt(0)]))
    # Cauchy-Schwarz and non-negativity as inductive invariants of the state (base, add, merge)
    inv = lambda s: And(s["sum_x_2"].ge(0), s["sum_y_2"].ge(0), (s["sum_prod"] * s["sum_prod"]).le(s["sum_x_2"] * s["sum_y_2"]))

    def free_state(tag, n):
        return cr.mk("Covariance", avg_x=T.sym("ax" + tag), avg_y=T.sym("ay" + tag), sum_x_2=T.sym("cxx" + tag),
                     sum_y_2=T.sym("cyy" + tag), sum_prod=T.sym("cxy" + tag), n=n)
    for case, n0, extra in (("n=0", T.num(0, UINT), lambda s: [s["sum_x_2"].eq(0), s["sum_y_2"].eq(0), s["sum_prod"].eq(0)]),
                            ("n>=1", T.sym("n", UINT), lambda s: [s["n"].ge(1), s["n"].lt(NMAX)])):
        s0 = free_state("", n0)
        hyps = [inv(s0)] + extra(s0)
        paths = Exec(cr).run(lambda: ({"self": free_state("", n0)}, list(hyps)),
                             lambda e, roots: e.call("Covariance", "add", roots["self"], [x, y]))
        for p in paths:
            if not p.panic:
                pr.holds("Covariance.add[%s].inv_cauchy_schwarz" % case, fadd, p.pc, inv(p.state["self"]), cls={"case": case})
    na, nb = T.sym("na", UINT), T.sym("nb", UINT)
    sa, sb = free_state("a", na), free_state("b", nb)
    hyps = [inv(sa), inv(sb), na.ge(1), nb.ge(1), na.lt(NMAX), nb.lt(NMAX)]
    paths = Exec(cr).run(lambda: ({"self": free_state("a", na), "other": free_state("b", nb)}, list(hyps)),
                         lambda e, roots: e.call("Covariance", "merge", roots["self"], [Ref(roots["other"])]))
    for p in paths:
        if not p.panic:
            pr.holds("Covariance.merge[both].inv_cauchy_schwarz", fm, p.pc, inv(p.state["self"]), cls={"case": "both"})
    obs = pr.obs
    import envelope
    obs += guarded("C09.engine.envelope.guard_covariance@L151", lambda: envelope.guard_covariance("C09"))
    obs += guarded("C09.engine.vl.run_lemmas@L152", lambda: vl.run_lemmas("C09", ["lemma_fold", "merge_tree", "concat", "swap"]))
    import rs_crosscheck
    obs += guarded("C09.engine.rs_crosscheck", lambda: rs_crosscheck.crosscheck("C09", ['Covariance']))
    meta = {
        "level": "proof",
        "checker_cmd": "./check C09 (rsx -> RS executor -> sympy / z3 QF_NRA; verus history.rs)",
        "functions_under_contract": ["Covariance::{new,default,add,len,is_empty,mean_x,mean_y,sample_variance_x,sample_variance_y,"
                                     "population_variance_x,population_variance_y,sample_covariance,population_covariance,pearson}",
                                     "<Covariance as Merge>::merge"],
        "source_files": [F],
        "extraction": EXTRACTION,
        "trusted_base": ["rsx + RS executor (own code)", "sympy polynomial arithmetic", "z3 5.1 nlsat", "Verus (history lemmas)"],
        "assumptions": [A_REAL, A_INT, A_LIB,
                        "x/y symmetry: rep(state, summary) and every accessor contract are symmetric under exchanging the coordinates, so swapping the roles of x and y swaps the x/y statistics and fixes covariance and pearson (consequence of the proved contracts, not a separate obligation)",
                        "|pearson| <= 1 uses Cxy^2 <= Cxx*Cyy, proved here as an inductive invariant of add and merge (inv_cauchy_schwarz)",
                        "collect/extend glue is C20's subject; every chunking/bracketing by the Verus merge-tree lemma over the pair-sum monoid",
                        "the forward-error envelope is not decided (A-REAL); a BOUNDED known-answer corpus (envelope_guard: independent offsets up to 1e12 on x and y) exercises it"],
        "explanation": "rep(state, (n,Sx,Sy,Sxx,Syy,Sxy)) preserved by add and merge for arbitrary symbolic summaries; accessors against the textbook statistics.",
    }
    return obs, meta, confirm


def confirm(ob):
    import envelope
    r = envelope.confirm_from_cex(ob)
    if r:
        return r
    import replay, oracle
    from fractions import Fraction as Fr
    import math
    seqs = [[(1.0, 2.0)], [(1.0, 2.0), (3.0, 1.0)], [(1.0, 2.0), (2.0, 5.0), (4.0, 3.0)], [(1.0, 1.0), (2.0, 3.0), (4.0, 2.0), (8.0, 9.0)],
            [(-1.0, 5.0), (0.5, 2.0), (3.0, -2.0), (7.0, -1.0), (2.0, 2.0)]]
    accs = ["len", "is_empty", "mean_x", "mean_y", "population_variance_x", "population_variance_y", "sample_variance_x",
            "sample_variance_y", "population_covariance", "sample_covariance", "pearson"]
    progs = []
    for s in seqs:
        progs.append({"type": "Covariance", "ctor": ["new"], "ops": [["add2", a, b] for a, b in s], "observe": accs})
        for cut in range(0, len(s) + 1):
            progs.append({"type": "Covariance", "ctor": ["new"], "ops": [["add2", a, b] for a, b in s[:cut]] + [
                ["merge", {"type": "Covariance", "ctor": ["new"], "ops": [["add2", a, b] for a, b in s[cut:]]}]], "observe": accs})
    results = replay.run_programs(progs)
    for prog, res in zip(progs, results):
        if res.get("error"):
            return {"replay_error": res["error"]}
        pts = [(Fr(a), Fr(b)) for a, b in oracle.flatten_moment_prog(prog)]
        n = len(pts)
        exp = {"len": n, "is_empty": n == 0}
        mx = sum(a for a, _ in pts) / n
        my = sum(b for _, b in pts) / n
        cxx = sum((a - mx) ** 2 for a, _ in pts)
        cyy = sum((b - my) ** 2 for _, b in pts)
        cxy = sum((a - mx) * (b - my) for a, b in pts)
        exp.update({"mean_x": mx, "mean_y": my, "population_variance_x": cxx / n, "population_variance_y": cyy / n,
                    "population_covariance": cxy / n})
        for k, v in (("sample_variance_x", cxx), ("sample_variance_y", cyy), ("sample_covariance", cxy)):
            exp[k] = v / (n - 1) if n >= 2 else "nan"
        exp["pearson"] = "nan" if n < 2 else (float(cxy) / math.sqrt(float(cxx * cyy)) if cxx * cyy != 0 else None)
        bad = oracle.compare(res, exp, accs)
        if res["panic"]:
            bad = [("panic", "no panic", res["panic"])]
        if bad:
            return {"program": prog, "expected": {k: e for k, e, a in bad}, "actual": {k: a for k, e, a in bad},
                    "panic": res["panic"], "confirmed_on_real_code": True}
    return {"confirmed_on_real_code": False, "note": "%d short histories agree with the exact statistics" % len(progs)}
