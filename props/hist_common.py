"""Shared set-up of the histogram K jobs (C06, C11, C12, C13)."""
from kani_engine import KaniJob, Harness

F = "src/histogram.rs"
FC = "src/histogram_const.rs"


def hist_job(prop, lens, names, unwind, timeout=1500, jobs=12, features="std", harness_timeout=None, modular=False):
    """names: list of (harness fn, obligation suffix, function under contract[, expect_panic])."""
    job = KaniJob(prop, features=features, timeout=timeout, jobs=jobs, harness_timeout=harness_timeout)
    job.include_in_macro(F, "define_histogram_common", "histogram.rs", prelude="use crate::{InvalidRangeError, SampleOutOfRangeError};")
    if modular:
        job.include_in_macro(F, "define_histogram_common", "histogram_modular.rs", modname="verif_kani_mod")
    inst = []
    for L in lens:
        if L != 10:
            inst.append("#[cfg(kani)]\ndefine_histogram!(vh%d, %d);" % (L, L))
    job.append("src/lib.rs", "\n" + "\n".join(inst) + "\n")
    job.extra_flags += ["--default-unwind", str(unwind)]
    for L in lens:
        mod = "hist" if L == 10 else "vh%d" % L
        for t in names:
            fn, ob, func = t[0], t[1], t[2]
            ep = len(t) > 3 and t[3]
            job.add(Harness("%s::%s::%s" % (mod, "verif_kani_mod" if modular else "verif_kani", fn), "%s.hist[%d].%s" % (prop, L, ob),
                            "%s::define_histogram!(_, %d)::%s" % (F, L, func), expect_panic=ep))
    return job


def hist_const_job(prop, lens, names, unwind, timeout=1500, jobs=12):
    """Same harness text on the const-generic copy (feature nightly)."""
    job = KaniJob(prop, features="std,nightly", timeout=timeout, jobs=jobs)
    from kani_engine import KDIR
    import os
    path = os.path.join(KDIR, "histogram.rs")
    for L in lens:
        job.append(FC, '\n#[cfg(kani)]\nmod verif_kani%d {\n    #![allow(unused)]\n    use super::*;\n'
                       '    const LEN: usize = %d;\n    type Histogram = super::Histogram<%d>;\n    include!("%s");\n}\n' % (L, L, L, path))
        for t in names:
            fn, ob, func = t[0], t[1], t[2]
            ep = len(t) > 3 and t[3]
            job.add(Harness("histogram_const::verif_kani%d::%s" % (L, fn), "%s.hist_const[%d].%s" % (prop, L, ob),
                            "%s::Histogram<%d>::%s" % (FC, L, func), expect_panic=ep))
    job.extra_flags += ["--default-unwind", str(unwind)]
    return job


COMMON_META = {
    "extraction": "none: Kani compiles the crate itself; a cfg(kani) harness module is spliced into the body of "
                  "define_histogram_common! in a scratch copy and the crate's own define_histogram! is instantiated per LEN",
    "trusted_base": ["Kani 0.68 / CBMC 6.11 (IEEE-754 comparisons, core::slice::binary_search_by, iterator adapters as compiled)",
                     "unwind bound stated per run with unwinding assertions on"],
}
