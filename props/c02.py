from common import guarded
"""C02  merge is equivalent to having seen the concatenated data (moment family).  Engine RS + VL."""
import terms as tm
from terms import T, UINT, REAL, real
from prove import Prover
import moments_rs as mr
from executor import Ref
import vl
from c01 import A_REAL, A_INT, A_LIB, EXTRACTION


def moments_merge(pr, N):
    cr, name = mr.load_moments_crate(N)
    f = "src/moments/mod.rs::define_moments!(_, %d)" % N
    mk = lambda P, tag="": mr.moments_state(cr, name, N, P, tag)
    kf = lambda k: k
    mr.check_merge(pr, cr, name, N, f + "::<%s as Merge>::merge" % name, mk, mr.read_moments,
                   lambda e, st, other: e.call(name, "merge", st, [Ref(other)]), kf)


def run(tier, seed):
    pr = Prover("C02", tier)
    cr = mr.load_crate()
    for ty in ("Mean", "Variance", "Skewness", "Kurtosis"):
        f = mr.FILES[ty]
        add_call, merge_call = mr.std_calls(ty)
        mk = lambda P, tag="", ty=ty: mr.rep_state(cr, ty, P, tag)
        mr.check_merge(pr, cr, ty, mr.ORDER[ty], f + "::<%s as Merge>::merge" % ty, mk, mr.read_state, merge_call, mr.keyfmt_std)
        if ty != "Mean":
            # modular variant: the nested merge is used through its contract, not its body
            mr.check_merge_modular(pr, cr, ty, mr.ORDER[ty], f + "::<%s as Merge>::merge" % ty)
    orders = [4, 5, 6, 8, 10]   # all orders of the property's quantifier in both tiers (sympy decides order 10 in < 1 s)
    for N in orders:
        moments_merge(pr, N)
    obs = pr.obs
    import envelope
    obs += guarded("C02.engine.envelope.guard_moments@L36", lambda: envelope.guard_moments("C02", "Kurtosis", ["mean", "population_variance", "sample_variance", "skewness", "kurtosis"],
                                  "<Kurtosis as Merge>::merge (two-chunk merges at several cuts, left fold of singletons)", with_merge=True))
    obs += guarded("C02.engine.envelope.guard_moments@L38", lambda: envelope.guard_moments("C02", "M6", ["mean", "sample_variance"] + [["central_moment", p] for p in range(2, 7)],
                                  "<define_moments!(_, 6) as Merge>::merge", with_merge=True))
    obs += guarded("C02.engine.vl.run_lemmas@L40", lambda: vl.run_lemmas("C02", ["merge_tree", "concat", "tree_equals", "lemma_fold"]))
    # the binomial-coefficient iterator shared by add and merge of every order: extracted and verified by Verus for EVERY n
    import verus_units
    obs += guarded("C02.engine.verus_units.iterbinomial_obligations@L43", lambda: verus_units.iterbinomial_obligations("C02"))
    import rs_crosscheck
    obs += guarded("C02.engine.rs_crosscheck", lambda: rs_crosscheck.crosscheck("C02", ['Mean', 'Variance', 'Skewness', 'Kurtosis', 'Moments6']))
    meta = {
        "level": "proof",
        "checker_cmd": "./check C02 (rsx -> RS executor -> sympy normal form / z3 QF_NRA; verus history.rs)",
        "functions_under_contract": ["<Mean as Merge>::merge", "<Variance as Merge>::merge", "<Skewness as Merge>::merge",
                                     "<Kurtosis as Merge>::merge", "Mean::is_empty", "Mean::len", "Mean::mean", "Variance::{is_empty,len,mean}",
                                     "Skewness::{is_empty,len,mean}", "Kurtosis::{is_empty,len,mean}"] +
                                    ["<Moments%d as Merge>::merge (define_moments!), IterBinomial::{new,next}" % N for N in orders],
        "source_files": ["src/moments/mean.rs", "src/moments/variance.rs", "src/moments/skewness.rs", "src/moments/kurtosis.rs", "src/moments/mod.rs"],
        "extraction": EXTRACTION + "; define_moments_common!/define_moments_inner! are instantiated by token substitution ($name, $MAX_MOMENT, $crate) and parsed, nothing else is rewritten; callees (Skewness::merge inside Kurtosis::merge, ...) are executed from their real bodies in the main obligations, and additionally every nested merge is replaced by its CONTRACT (requires checked, state havocked, ensures assumed) in the `via_contract_of_*` obligations, so each merge is also proved modularly from the contract of the merge it delegates to",
        "trusted_base": ["Verus 0.2026.09.13 / z3 on the mechanically extracted IterBinomial (contracts/verus/iterbinomial.rs.tmpl: struct re-printed from the AST; `pub`, `#[inline]`, the `impl Iterator for` header and `type Item` dropped; `-> T` written `-> (r: T)`; a ghost proof block after the opening brace of next; bodies verbatim)", "rsx + RS executor (own code)", "sympy polynomial arithmetic", "z3 5.1 nlsat", "Verus (merge-tree lemma)"],
        "assumptions": ["IterBinomial (Verus, all n): next() yields C(n, k) under the precondition that k*C(n,k) fits u64 (true for every order up to 62); machine integers are u64 in the proof, not mathematical",
                        A_REAL, A_INT, A_LIB,
                        "configurations: define_moments! orders %s (loops unrolled: bounds are the macro parameter, complete per order)" % orders,
                        "every chunking / bracketing / empty chunk: Verus lemma_merge_tree + lemma_summary_concat over the power-sum monoid; merge(&mut self, &Self) cannot modify its argument (rustc, also checked as frame_other)",
                        "the forward-error envelope after merging is not decided (A-REAL); a BOUNDED known-answer corpus (envelope_guard.merge) exercises it on ill-conditioned samples"],
        "explanation": "both operands symbolic representations of arbitrary summaries Pa, Pb; four emptiness cases; post-state equals the representation of Pa+Pb.",
    }
    from confirm_rs import confirm_moment
    import verus_units
    return obs, meta, lambda ob: verus_units.confirm(ob, "C02") or envelope.confirm_from_cex(ob) or confirm_moment(ob, {"Moments4": "Moments4", "Moments5": "M5", "Moments6": "M6", "Moments8": "M8", "Moments10": "M10"})
