from common import guarded
"""C05  Quantile follows the P-square algorithm exactly once five observations are in.  Engine RS."""
import terms as tm
from terms import T, INT, UINT, REAL, TRUE, FALSE, And, Not, Or, real, ite
from prove import Prover
from executor import Exec, Arr, dcopy
import quantile_rs as qr
from common import Undecided
from c01 import A_REAL, A_LIB, EXTRACTION

F = qr.F


def stage_prologue(pr, cr):
    fn, stmts, fors = qr.add_body(cr)
    x = T.sym("x")
    fname = F + "::<Quantile as Estimate>::add [prologue: cell search, extreme markers, position increments]"

    def build():
        st = qr.sym_state(cr)
        hyps = qr.ordered_heights(st) + qr.increasing_positions(st) + [st["n"][4].ge(5), st["n"][0].eq(1)]
        return {"self": st, "pre": dcopy(st)}, hyps

    def body(e, roots):
        frame = {"self": roots["self"], "x": x, "$ty": "Quantile"}
        e.exec_stmts(stmts[:-1], frame)
        pre = roots["pre"]
        return qr.ref_prologue(e, pre["q"], pre["n"], pre["m"], pre["dm"], x)

    paths = Exec(cr).run(build, body)
    pre_name = "Quantile.add.prologue"
    st0 = qr.sym_state(cr)
    pr.feasible(pre_name + ".hyps_sat", fname, qr.ordered_heights(st0) + qr.increasing_positions(st0) + [st0["n"][4].ge(5), st0["n"][0].eq(1)])
    pr.no_panic(pre_name + ".no_panic", fname, paths)
    pr.sides(pre_name, fname, paths)
    live = [p for p in paths if not p.panic]
    for j in range(5):
        pr.all_paths("%s.q[%d]" % (pre_name, j), fname, [(p.pc, p.state["self"]["q"][j].eq(p.result[0][j])) for p in live], cls={"stage": "prologue", "field": "q%d" % j})
        pr.all_paths("%s.n[%d]" % (pre_name, j), fname, [(p.pc, real(p.state["self"]["n"][j]).eq(real(p.result[1][j]))) for p in live], cls={"stage": "prologue", "field": "n%d" % j})
        pr.all_paths("%s.m[%d]" % (pre_name, j), fname, [(p.pc, p.state["self"]["m"][j].eq(p.result[2][j])) for p in live], cls={"stage": "prologue", "field": "m%d" % j})
    pr.all_paths(pre_name + ".frame_dm", fname, [(p.pc, TRUE if all(p.state["self"]["dm"][j] == p.state["pre"]["dm"][j] for j in range(5)) else FALSE) for p in live])
    # well-formedness carried through the prologue: n[0] stays 1, n[4] = count + 1, positions strictly increasing,
    # heights ordered with q[0] = min(old q[0], x), q[4] = max(old q[4], x)
    def wf(p):
        s, o = p.state["self"], p.state["pre"]
        return And(s["n"][0].eq(1), s["n"][4].eq(o["n"][4] + 1), *(qr.increasing_positions(s) + qr.ordered_heights(s)),
                   s["q"][0].eq(ite(x.lt(o["q"][0]), x, o["q"][0])), s["q"][4].eq(ite(x.gt(o["q"][4]), x, o["q"][4])))
    pr.all_paths(pre_name + ".wf", fname, [(p.pc, wf(p)) for p in live], cls={"stage": "prologue", "field": "wf"})
    return len(live)


def stage_adjust(pr, cr, i):
    fn, stmts, fors = qr.add_body(cr)
    loop = stmts[-1]["e"]
    it = loop["iter"]
    if not (it["k"] == "range" and it["lo"] and it["hi"] and it["lo"].get("v") == "1" and it["hi"].get("v") == "4" and not it["incl"]):
        raise Undecided("lost anchor: marker adjustment loop is expected to be `for i in 1..4`")
    fname = F + "::<Quantile as Estimate>::add [adjust marker %d: loop body incl. parabolic/linear]" % i

    def build():
        st = qr.sym_state(cr)
        hyps = qr.increasing_positions(st) + qr.ordered_heights(st)
        return {"self": st, "pre": dcopy(st)}, hyps

    def body(e, roots):
        frame = {"self": roots["self"], "x": T.sym("x"), "$ty": "Quantile"}
        e.bind(frame, loop["pat"], T.num(i, UINT))
        e.exec_stmts(loop["body"]["stmts"], frame)
        pre = roots["pre"]
        return qr.ref_adjust(e, pre["q"], pre["n"], pre["m"], i)

    paths = Exec(cr).run(build, body)
    pre_name = "Quantile.add.adjust[%d]" % i
    pr.no_panic(pre_name + ".no_panic", fname, paths)
    pr.sides(pre_name, fname, paths)
    live = [p for p in paths if not p.panic]
    pr.all_paths("%s.q" % pre_name, fname, [(p.pc, And(*[p.state["self"]["q"][j].eq(p.result[0][j]) for j in range(5)])) for p in live],
                 cls={"stage": "adjust", "marker": i, "field": "q"})
    pr.all_paths("%s.n" % pre_name, fname, [(p.pc, And(*[real(p.state["self"]["n"][j]).eq(real(p.result[1][j])) for j in range(5)])) for p in live],
                 cls={"stage": "adjust", "marker": i, "field": "n"})
    pr.all_paths("%s.frame_m_dm" % pre_name, fname,
                 [(p.pc, TRUE if all(p.state["self"][f][j] == p.state["pre"][f][j] for f in ("m", "dm") for j in range(5)) else FALSE) for p in live])
    # positions stay strictly increasing, heights stay ordered (parabolic accepted only strictly between
    # its neighbours; the linear step lies between them because the position gap is >= 2), ends untouched
    def wf(p):
        s, o = p.state["self"], p.state["pre"]
        return And(*(qr.increasing_positions(s) + qr.ordered_heights(s) +
                     [s["q"][0].eq(o["q"][0]), s["q"][4].eq(o["q"][4]), s["n"][0].eq(o["n"][0]), s["n"][4].eq(o["n"][4])]))
    pr.all_paths("%s.wf" % pre_name, fname, [(p.pc, wf(p)) for p in live], cls={"stage": "adjust", "marker": i, "field": "wf"})
    return len(live)


def init_and_accessors(pr, cr):
    p = T.sym("p")
    # new(p): the paper's initial desired positions and increments
    fnew = F + "::Quantile::new"
    paths = Exec(cr).run(lambda: ({}, [p.ge(0), p.le(1)]), lambda e, r: e.call("Quantile", "new", None, [p]))
    pr.no_panic("Quantile.new.no_panic[0<=p<=1]", fnew, paths)
    for pp in paths:
        if pp.panic:
            continue
        st = pp.result
        want_m = [T.num(1, REAL), 1 + 2 * p, 1 + 4 * p, 3 + 2 * p, T.num(5, REAL)]
        want_dm = [T.num(0, REAL), p / 2, p, (1 + p) / 2, T.num(1, REAL)]
        for j in range(5):
            pr.eq("Quantile.new.m[%d]" % j, fnew, pp.pc, st["m"][j], want_m[j])
            pr.eq("Quantile.new.dm[%d]" % j, fnew, pp.pc, st["dm"][j], want_dm[j])
        pr.eq("Quantile.new.count", fnew, pp.pc, real(st["n"][4]), T.num(0, REAL))
        for j in range(4):
            pr.eq("Quantile.new.n[%d]" % j, fnew, pp.pc, real(st["n"][j]), T.num(j + 1, REAL))
    for bad, hy in (("p<0", [p.lt(0)]), ("p>1", [p.gt(1)])):
        paths = Exec(cr).run(lambda: ({}, list(hy)), lambda e, r: e.call("Quantile", "new", None, [p]))
        pr.holds("Quantile.new.panics[%s]" % bad, fnew, [], TRUE if all(pp.panic for pp in paths) and paths else FALSE)
    # the first five observations: stored in arrival order, sorted when the fifth arrives, positions (1,2,3,4,5)
    fadd = F + "::<Quantile as Estimate>::add [phase n < 5]"
    x = T.sym("x")
    for c in range(0, 5):
        def build():
            st = qr.sym_state(cr, count=T.num(c, INT))
            for j in range(4):
                st["n"][j] = T.num(j + 1, INT)
            return {"self": st, "pre": dcopy(st)}, []
        paths = Exec(cr).run(build, lambda e, r: e.call("Quantile", "add", r["self"], [x]))
        pr.no_panic("Quantile.add.fill[count=%d].no_panic" % c, fadd, paths)
        live = [pp for pp in paths if not pp.panic]
        goals = []
        for pp in live:
            s, o = pp.state["self"], pp.state["pre"]
            g = [s["n"][4].eq(c + 1)] + [s["n"][j].eq(j + 1) for j in range(4)]
            g += [TRUE if all(s[f][j] == o[f][j] for f in ("m", "dm") for j in range(5)) else FALSE]
            if c < 4:
                g += [TRUE if all(s["q"][j] == (x if j == c else o["q"][j]) for j in range(5)) else FALSE]
            else:
                want = sorted([tm.show(v) for v in (list(o["q"][:4]) + [x])])
                got = sorted([tm.show(v) for v in s["q"]])
                g += [TRUE if want == got else FALSE] + qr.ordered_heights(s)
            goals.append((pp.pc, And(*g)))
        pr.all_paths("Quantile.add.fill[count=%d].state" % c, fadd, goals, cls={"stage": "fill", "count": c})
    # quantile() is the middle marker once five observations are in
    fq = F + "::Quantile::quantile"
    def build5():
        st = qr.sym_state(cr)
        return {"self": st}, [st["n"][4].ge(5)]
    paths = Exec(cr).run(build5, lambda e, r: e.call("Quantile", "quantile", r["self"], []))
    pr.no_panic("Quantile.quantile[count>=5].no_panic", fq, paths)
    pr.sides("Quantile.quantile[count>=5]", fq, paths)
    pr.all_paths("Quantile.quantile[count>=5].is_middle_marker", fq, [(pp.pc, pp.result.eq(T.sym("q2"))) for pp in paths if not pp.panic])
    for nm in ("estimate",):
        paths = Exec(cr).run(build5, lambda e, r: e.call("Quantile", nm, r["self"], []))
        pr.all_paths("Quantile.%s[count>=5].is_middle_marker" % nm, F + "::<Quantile as Estimate>::estimate",
                     [(pp.pc, pp.result.eq(T.sym("q2"))) for pp in paths if not pp.panic])


def run(tier, seed):
    pr = Prover("C05", tier)
    cr = qr.load()
    n_paths = stage_prologue(pr, cr)
    for i in (1, 2, 3):
        n_paths += stage_adjust(pr, cr, i)
    init_and_accessors(pr, cr)
    import vl
    pr.obs += vl.run_lemmas("C05", ["stagewise"])
    import rs_crosscheck
    pr.obs += guarded("C05.engine.rs_crosscheck", lambda: rs_crosscheck.crosscheck("C05", ['Quantile']))
    meta = {
        "level": "proof",
        "checker_cmd": "./check C05 (rsx -> RS executor, stage-wise on the real body of Quantile::add -> z3)",
        "functions_under_contract": ["<Quantile as Estimate>::add (n >= 5: prologue stage and the three marker-adjustment stages; n < 5: fill phase)",
                                     "Quantile::parabolic", "Quantile::linear", "Quantile::new", "Quantile::quantile (n >= 5)",
                                     "<Quantile as Estimate>::estimate", "Quantile::len"],
        "source_files": [F],
        "extraction": EXTRACTION + "; Quantile::add is executed stage-wise: all statements before its third top-level `for`, and the body of that "
                      "loop with i bound to 1, 2, 3, each from an arbitrary symbolic state (anchors by ordinal within the syn body; a lost anchor is exit 2)",
        "trusted_base": ["rsx + RS executor (own code)", "z3 5.1", "clean-room reference step props/quantile_rs.py (A-SPEC: transcribed from Jain & Chlamtac 1985, boxes B1-B3)"],
        "assumptions": [A_REAL, A_LIB, "A-LIB: Float::signum, easy_cast conv_nearest on +-1, float_ord::sort",
                        "sequential composition: the step is prologue; adjust(1); adjust(2); adjust(3) in the code and in the reference alike, each stage proved equal from an arbitrary "
                        "well-formed state and well-formedness proved preserved by each stage; that such stage contracts compose to equal steps and, by induction over the stream, to equal states after every observation "
                        "is machine-checked abstractly (Verus lemma_stagewise_step / lemma_stagewise_stream); instantiating its hypotheses with the discharged stage obligations is by inspection",
                        "'up to the rounding of the same arithmetic' is exact-real semantics: real-valued results are compared, so reassociating a formula is not a violation",
                        "observations are finite and not NaN (outside the property otherwise)"],
        "explanation": "%d symbolic paths over the four stages; every marker height, position and desired position compared with the reference on every path." % n_paths,
    }
    return pr.obs, meta, confirm


def p2_reference(p, xs):
    """Plain-float P-square from the paper, for replay confirmation only."""
    q = sorted(xs[:5]); n = [1, 2, 3, 4, 5]
    m = [1.0, 1 + 2 * p, 1 + 4 * p, 3 + 2 * p, 5.0]; dm = [0.0, p / 2, p, (1 + p) / 2, 1.0]
    for x in xs[5:]:
        if x < q[0]: q[0] = x; k = 1
        elif x < q[1]: k = 1
        elif x < q[2]: k = 2
        elif x < q[3]: k = 3
        elif x <= q[4]: k = 4
        else: q[4] = x; k = 4
        for i in range(k, 5): n[i] += 1
        for i in range(5): m[i] += dm[i]
        for i in (1, 2, 3):
            d = m[i] - n[i]
            if (d >= 1 and n[i + 1] - n[i] > 1) or (d <= -1 and n[i - 1] - n[i] < -1):
                s = 1 if d > 0 else -1
                par = q[i] + s / (n[i + 1] - n[i - 1]) * ((n[i] - n[i - 1] + s) * (q[i + 1] - q[i]) / (n[i + 1] - n[i]) + (n[i + 1] - n[i] - s) * (q[i] - q[i - 1]) / (n[i] - n[i - 1]))
                if q[i - 1] < par < q[i + 1]: q[i] = par
                else: q[i] = q[i] + s * (q[i + s] - q[i]) / (n[i + s] - n[i])
                n[i] += s
    return q[2]


def confirm(ob):
    import replay
    import random
    rnd = random.Random(7)
    streams = [[float(v) for v in range(60, 0, -1)], [float(v) for v in range(1, 61)],
               [float((7 * i) % 23) for i in range(40)], [rnd.uniform(-5, 5) for _ in range(50)],
               [float(v) for v in (5, 4, 3, 2, 1, 0, -1, -2, 10, 11, -3, 12, -4)]]
    # heavy-tie streams over a small alphabet (exact coincidences between predictions and marker heights)
    for _ in range(120):
        streams.append([float(rnd.randint(0, 3)) for _ in range(rnd.randint(6, 9))])
    streams.append([3.0, 3.0, 1.0, 0.0, 0.0, 0.0])
    progs, exps = [], []
    for xs in streams:
        for p in ((0.5, 0.1, 0.9, 0.0, 1.0) if len(xs) > 10 else (0.0, 0.25, 0.5, 0.75)):
            progs.append({"type": "Quantile", "ctor": ["new", p], "ops": [["add", v] for v in xs], "observe": ["quantile", "len"]})
            exps.append(p2_reference(p, xs))
    results = replay.run_programs(progs)
    for prog, res, e in zip(progs, results, exps):
        if res.get("error"):
            return {"replay_error": res["error"]}
        a = res["obs"].get("quantile")
        if res["panic"] or a is None or abs(a - e) > 1e-9 * max(1.0, abs(e)):
            return {"program": prog, "expected": {"quantile": repr(e)}, "actual": {"quantile": repr(a)}, "panic": res["panic"],
                    "confirmed_on_real_code": True, "note": "expected = the paper's algorithm run in plain floats on the same stream"}
    return {"confirmed_on_real_code": False, "note": "%d streams agree with the reference run" % len(progs)}
