from common import guarded
"""C03  Skewness and kurtosis estimators equal the exact standardized moments.  Engine RS + VL."""
import terms as tm
from terms import T, UINT, REAL, TRUE, And, Not, Or, real
from prove import Prover
import moments_rs as mr
from moments_rs import n_cases
import vl
from c01 import A_REAL, A_INT, A_LIB, EXTRACTION, variance_accessors

A_REALIZABLE = ("realizable(P): for central sums of a real multiset M2 >= 0, M2 = 0 => M3 = M4 = 0 and M2 > 0 => M4 > 0 - used as hypotheses of the accessor "
                "contracts and DISCHARGED as Verus lemmas over real sequences (lemma_realizable, lemma_bridge: central sums = the power-sum terms M_p(P) for p <= 4)")


def run(tier, seed):
    pr = Prover("C03", tier)
    cr = mr.load_crate()
    avg, M2, M3, M4 = T.sym("avg"), T.sym("M2"), T.sym("M3"), T.sym("M4")
    sums = {2: M2, 3: M3, 4: M4}
    rz = mr.realizable(sums)
    for ty in ("Skewness", "Kurtosis"):
        f = mr.FILES[ty]
        add_call, merge_call = mr.std_calls(ty)
        mk = lambda P, tag="", ty=ty: mr.rep_state(cr, ty, P, tag)
        mr.check_new(pr, cr, ty, mr.read_state, f)
        mr.check_new(pr, cr, ty, mr.read_state, f, ctor="default")
        mr.check_add(pr, cr, ty, mr.ORDER[ty], f + "::<%s as Estimate>::add" % ty, mk, mr.read_state, add_call, mr.keyfmt_std)
        variance_accessors(pr, cr, ty)
        mks = lambda n, ty=ty: mr.fixed_state(cr, ty, n, avg, sums)
        # skewness = (M3/n) / (M2/n)^1.5 ; 0 for constant data (M2 = 0), NaN when empty
        def skew_spec(n):
            s2 = M2 / real(n)
            return ("pred", lambda r: Or(And(M2.eq(0), r.eq(0)),
                                         And(M2.gt(0), (r * s2 * tm.sqrt(s2)).eq(M3 / real(n)))))
        for acc in (["skewness", "estimate"] if ty == "Skewness" else ["skewness"]):
            mr.check_accessor(pr, cr, ty, f, acc, n_cases(1, skew_spec, extra_hyps=rz), mks)
        if ty == "Kurtosis":
            def kurt_spec(n):
                s2 = M2 / real(n)
                return ("pred", lambda r: Or(And(M2.eq(0), r.eq(0)),
                                             And(M2.gt(0), ((r + 3) * s2 * s2).eq(M4 / real(n)))))
            for acc in ("kurtosis", "estimate"):
                mr.check_accessor(pr, cr, ty, f, acc, n_cases(1, kurt_spec, extra_hyps=rz), mks)
    obs = pr.obs
    import envelope
    obs += guarded("C03.engine.envelope.guard_moments@L45", lambda: envelope.guard_moments("C03", "Kurtosis", ["mean", "population_variance", "sample_variance", "error_mean", "skewness", "kurtosis"],
                                  "src/moments/kurtosis.rs::Kurtosis (add-only histories)"))
    obs += guarded("C03.engine.envelope.guard_moments@L47", lambda: envelope.guard_moments("C03", "Skewness", ["mean", "population_variance", "sample_variance", "error_mean", "skewness"],
                                  "src/moments/skewness.rs::Skewness (add-only histories)"))
    obs += guarded("C03.engine.vl.run_lemmas@L49", lambda: vl.run_lemmas("C03", ["lemma_fold", "swap", "realizable", "bridge", "real_sq"]))
    import rs_crosscheck
    obs += guarded("C03.engine.rs_crosscheck", lambda: rs_crosscheck.crosscheck("C03", ['Skewness', 'Kurtosis']))
    meta = {
        "level": "proof",
        "checker_cmd": "./check C03 (rsx -> RS executor -> sympy normal form / z3 QF_NRA; verus history.rs)",
        "functions_under_contract": ["Skewness::{new,default,increment,add_inner,is_empty,mean,len,sample_variance,population_variance,error_mean,skewness}",
                                     "<Skewness as Estimate>::{add,estimate}",
                                     "Kurtosis::{new,default,increment,add_inner,is_empty,mean,len,sample_variance,population_variance,error_mean,skewness,kurtosis}",
                                     "<Kurtosis as Estimate>::{add,estimate}", "Variance::{add_inner,...} and Mean::{add_inner,...} as executed callees"],
        "source_files": ["src/moments/mean.rs", "src/moments/variance.rs", "src/moments/skewness.rs", "src/moments/kurtosis.rs"],
        "extraction": EXTRACTION,
        "trusted_base": ["rsx + RS executor (own code)", "sympy polynomial arithmetic", "z3 5.1 nlsat", "Verus (history lemma)"],
        "assumptions": [A_REAL, A_INT, A_LIB, A_REALIZABLE,
                        "lifting to every sequence: Verus lemma_fold over the power-sum monoid (order 4)",
                        "the forward-error envelope is not decided (A-REAL); a BOUNDED known-answer corpus (envelope_guard) exercises it on ill-conditioned samples"],
        "explanation": "Terriberry updates proved against M3/M4 of the enlarged summary for arbitrary symbolic summaries; accessors against the textbook formulas with square roots as r >= 0, r^2 = x.",
    }
    from confirm_rs import confirm_moment
    return obs, meta, lambda ob: envelope.confirm_from_cex(ob) or confirm_moment(ob)
