"""Structural contracts of the ingestion glue (C20) and of the rayon wiring (C19), checked on the syn AST of the
real source on every run (all sequence lengths, all chunkings - no bound):

  from_iter(iter):  `let mut e = T::new(); for <pat> in iter { e.add(<vars of pat, in order>); } e`
  extend(iter):     `for <pat> in iter { self.add(<vars of pat, in order>); }`
  from_par_iter:    `par_iter.into_par_iter().fold(|| T::new(), |mut e, i| { e.add(i | *i); e })
                                             .reduce(|| T::new(), |mut a, b| { a.merge(&b); a })`

i.e. every item causes exactly one `add` call, in iteration order, with its components in order, starting from
`new()` (resp. the existing state).  A body of any other shape is not a violation by itself: it is reported as
UNDECIDED (the bounded Kani harnesses remain the deciding check for it)."""
import json
import os
import subprocess

from common import Obligation, DISCHARGED, REFUTED, UNDECIDED, REPO, RSX, Undecided


def _rsx(args):
    p = subprocess.run([RSX] + args, stdout=subprocess.PIPE, stderr=subprocess.PIPE, text=True)
    if p.returncode != 0:
        raise Undecided("rsx %s failed: %s" % (" ".join(args), p.stderr.strip()))
    return json.loads(p.stdout)


def _pat_vars(p):
    """Variables bound by the loop pattern, in order; strips one level of `&`."""
    if p["k"] == "pref":
        p = p["pat"]
    if p["k"] == "pident":
        return [p["name"]]
    if p["k"] == "ptuple" and all(e["k"] == "pident" for e in p["elems"]):
        return [e["name"] for e in p["elems"]]
    return None


def _is_path(e, name):
    return e.get("k") == "path" and e.get("segs") == [name]


def _add_call(stmt, recv, vars_):
    """stmt is `recv.add(v1, v2..);` with exactly the pattern variables in order (a `*v` deref is allowed)."""
    if stmt.get("k") != "expr":
        return False
    e = stmt["e"]
    if e.get("k") != "mcall" or e.get("m") != "add" or not _is_path(e["recv"], recv):
        return False
    args = e["args"]
    if len(args) != len(vars_):
        return False
    for a, v in zip(args, vars_):
        if a.get("k") == "unary" and a.get("op") == "*":
            a = a["e"]
        if not _is_path(a, v):
            return False
    return True


def _check_loop(stmt, recv):
    if stmt.get("k") != "expr" or stmt["e"].get("k") != "for":
        return "no for loop"
    f = stmt["e"]
    if not _is_path(f["iter"], "iter"):
        return "loop does not iterate over the argument"
    vs = _pat_vars(f["pat"])
    if vs is None:
        return "unrecognised loop pattern"
    body = f["body"]["stmts"]
    if len(body) != 1 or not _add_call(body[0], recv, vs):
        # a single add call on the right receiver whose arguments are pattern variables in ANOTHER order is a definite
        # violation of the contract (components swapped), not merely an unknown shape
        if len(body) == 1 and body[0].get("k") == "expr" and body[0]["e"].get("k") == "mcall" and body[0]["e"].get("m") == "add" \
                and _is_path(body[0]["e"]["recv"], recv):
            names = []
            for a in body[0]["e"]["args"]:
                if a.get("k") == "unary" and a.get("op") == "*":
                    a = a["e"]
                if a.get("k") == "field" and a["base"].get("k") == "path":      # pair.1 style
                    names.append("%s.%s" % (a["base"]["segs"][0], a["name"]))
                elif a.get("k") == "path" and len(a["segs"]) == 1:
                    names.append(a["segs"][0])
                else:
                    names = None
                    break
            if names is not None and sorted(names) == sorted(vs) and names != vs:
                return "REFUTED: add receives the item's components in the order (%s), the item provides (%s)" % (", ".join(names), ", ".join(vs))
            if names is not None and len(vs) == 1 and len(names) == 2 and all(n.startswith(vs[0] + ".") for n in names) and names != [vs[0] + ".0", vs[0] + ".1"]:
                return "REFUTED: add receives the pair's components as (%s)" % ", ".join(names)
        return "loop body is not a single `%s.add(%s)`" % (recv, ", ".join(vs))
    return None


def check_fn(fn, kind, ty):
    """-> None if the body has the contract shape, else a reason."""
    stmts = fn["body"]["stmts"]
    if kind == "extend":
        if len(stmts) != 1:
            return "extend has %d statements" % len(stmts)
        return _check_loop(stmts[0], "self")
    # from_iter
    if len(stmts) != 3:
        return "from_iter has %d statements" % len(stmts)
    s0 = stmts[0]
    if s0.get("k") != "local" or s0["pat"].get("k") != "pident" or not s0["pat"].get("mut"):
        return "first statement is not `let mut e = ..`"
    var = s0["pat"]["name"]
    init = s0["init"]
    if not (init and init.get("k") == "call" and init["f"].get("k") == "path" and init["f"]["segs"][-1] == "new"
            and init["f"]["segs"][-2] in (ty, "Self") and not init["args"]):
        return "estimator is not created by %s::new()" % ty
    r = _check_loop(stmts[1], var)
    if r:
        return r
    if not (stmts[2].get("k") == "expr" and not stmts[2]["semi"] and _is_path(stmts[2]["e"], var)):
        return "result is not the estimator built by the loop"
    return None


def _impls(ast, ty):
    for it in ast["items"]:
        if it["k"] == "impl" and it["target"].replace(" ", "") == ty and it.get("trait"):
            tr = it["trait"].replace(" ", "")
            for f in it["items"]:
                if f["k"] == "fn" and f["name"] in ("from_iter", "extend"):
                    yield tr, f


def glue_obligations(prop):
    obs = []
    units = []
    mac = os.path.join(REPO, "src/macros.rs")
    for macro in ("impl_from_iterator", "impl_extend"):
        ast = _rsx(["expand", mac, macro, "name=T0"])
        for tr, f in _impls(ast, "T0"):
            units.append(("src/macros.rs::%s!" % macro, "T0", tr, f))
    for rel, types in (("src/weighted_mean.rs", ("WeightedMean", "WeightedMeanWithError")), ("src/covariance.rs", ("Covariance",))):
        ast = _rsx(["parse", os.path.join(REPO, rel)])
        for ty in types:
            for tr, f in _impls(ast, ty):
                units.append((rel, ty, tr, f))
    if len(units) < 4 + 8 + 4:
        obs.append(Obligation("%s.glue.structural.inventory" % prop, "src/macros.rs, src/weighted_mean.rs, src/covariance.rs", "structural", UNDECIDED, 0.0,
                              "expected 16 FromIterator/Extend impls, found %d (lost anchor)" % len(units)))
    for where, ty, tr, f in units:
        kind = "extend" if f["name"] == "extend" else "from_iter"
        short = tr.split("::")[-1]
        name = "%s.glue.structural.%s.%s" % (prop, ty if ty != "T0" else "macro", short.replace("<", "[").replace(">", "]"))
        reason = check_fn(f, kind, ty)
        if reason is None:
            obs.append(Obligation(name, "%s::<%s as %s>::%s" % (where, ty, short, f["name"]), "structural", DISCHARGED, 0.0,
                                  "one add per item, in order, components in order (all lengths)",
                                  text="AST shape of %s: for <pat> in iter { e.add(<pat vars>) }" % f["name"]))
        elif reason.startswith("REFUTED"):
            obs.append(Obligation(name, "%s::<%s as %s>::%s" % (where, ty, short, f["name"]), "structural", REFUTED, 0.0, reason[9:],
                                  cex={"class": {"structural": True}, "line": f.get("ln")}))
        else:
            # unknown shape: advisory only (never turns the check into `undecided`), the bounded Kani harness decides
            obs.append(Obligation(name, "%s::<%s as %s>::%s" % (where, ty, short, f["name"]), "structural", UNDECIDED, 0.0,
                                  "body does not have the contract shape (%s); the bounded Kani harness decides it" % reason,
                                  bounded="advisory: shape not recognised", kind="advisory"))
    return obs


def par_obligations(prop):
    """impl_from_par_iterator!: fold(new, add) / reduce(new, merge in order) for f64 and &f64."""
    obs = []
    ast = _rsx(["expand", os.path.join(REPO, "src/macros.rs"), "impl_from_par_iterator", "name=T0"])
    fns = []
    for it in ast["items"]:
        if it["k"] == "impl" and it["target"].replace(" ", "") == "T0":
            for f in it["items"]:
                if f["k"] == "fn" and f["name"] == "from_par_iter":
                    fns.append((it["trait"].replace(" ", ""), f))
    if len(fns) != 2:
        return [Obligation("%s.par.structural.inventory" % prop, "src/macros.rs::impl_from_par_iterator!", "structural", UNDECIDED, 0.0,
                           "expected 2 from_par_iter impls, found %d" % len(fns))]

    def closure_new(c):
        b = c.get("body", {})
        return c.get("k") == "closure" and not c["params"] and b.get("k") == "call" and b["f"].get("k") == "path" and b["f"]["segs"][-2:] == ["T0", "new"]

    def closure_step(c, method, by_ref_arg):
        if c.get("k") != "closure" or len(c["params"]) != 2 or c["body"].get("k") != "block":
            return False
        p0, p1 = c["params"]
        if p0.get("k") != "pident" or not p0.get("mut") or p1.get("k") != "pident":
            return False
        a, b = p0["name"], p1["name"]
        st = c["body"]["stmts"]
        if len(st) != 2:
            return False
        e = st[0].get("e", {})
        if not (e.get("k") == "mcall" and e.get("m") == method and _is_path(e["recv"], a) and len(e["args"]) == 1):
            return False
        arg = e["args"][0]
        if by_ref_arg == "ref":
            ok = arg.get("k") == "ref" and _is_path(arg["e"], b)
        elif by_ref_arg == "deref":
            ok = arg.get("k") == "unary" and arg.get("op") == "*" and _is_path(arg["e"], b)
        else:
            ok = _is_path(arg, b)
        return ok and st[1].get("k") == "expr" and not st[1]["semi"] and _is_path(st[1]["e"], a)
    for tr, f in fns:
        by_ref = "&'af64" in tr or "&" in tr.split("<")[-1]
        name = "%s.par.structural.%s" % (prop, "ref_f64" if by_ref else "f64")
        stmts = f["body"]["stmts"]
        tail = stmts[-1]["e"] if stmts and stmts[-1].get("k") == "expr" else {}
        ok = False
        why = "unrecognised shape"
        if tail.get("k") == "mcall" and tail.get("m") == "reduce" and len(tail["args"]) == 2:
            fold = tail["recv"]
            if fold.get("k") == "mcall" and fold.get("m") == "fold" and len(fold["args"]) == 2 and _is_path(fold["recv"], "par_iter"):
                c1 = closure_new(fold["args"][0]) and closure_step(fold["args"][1], "add", "deref" if by_ref else "val")
                c2 = closure_new(tail["args"][0]) and closure_step(tail["args"][1], "merge", "ref")
                ok = c1 and c2
                why = "fold identity/step %s, reduce identity/step %s" % ("ok" if c1 else "differ", "ok" if c2 else "differ")
        if ok:
            obs.append(Obligation(name, "src/macros.rs::impl_from_par_iterator!::from_par_iter", "structural", DISCHARGED, 0.0,
                                  "fold(|| new(), |mut e, i| { e.add(i); e }).reduce(|| new(), |mut a, b| { a.merge(&b); a })",
                                  text="AST shape of from_par_iter"))
        else:
            obs.append(Obligation(name, "src/macros.rs::impl_from_par_iterator!::from_par_iter", "structural", UNDECIDED, 0.0,
                                  "body does not have the contract shape (%s); the bounded Kani harness decides it" % why,
                                  bounded="advisory: shape not recognised", kind="advisory"))
    return obs
