from common import guarded
"""C07  With fewer than five observations Quantile returns the exact sample quantile.  Engine RS."""
import terms as tm
from terms import T, INT, UINT, REAL, TRUE, FALSE, And, Not, Or, real, ite
from prove import Prover
from executor import Exec, Arr
import quantile_rs as qr
from c01 import A_REAL, A_LIB, EXTRACTION

F = qr.F


def sorted_net(vals):
    """Ascending rearrangement as min/max (ite) terms: the specification's own sort."""
    v = list(vals)
    n = len(v)
    for i in range(n):
        for j in range(0, n - 1 - i):
            a, b = v[j], v[j + 1]
            v[j], v[j + 1] = ite(a.le(b), a, b), ite(a.le(b), b, a)
    return v


def spec_quantile(vals, p):
    """From the statement: the smallest observation whose cumulative relative frequency reaches p,
    averaged with the next larger one when len*p is a whole number k with 1 <= k < len."""
    L = len(vals)
    s = sorted_net(vals)
    h = T.num(L, REAL) * p
    out = s[L - 1]
    # build from the top: intervals (k-1, k) -> s[k-1]; points h == k -> average (1 <= k < L), s[0] at 0, s[L-1] at L
    for k in range(L, 0, -1):
        out = ite(h.lt(k), s[k - 1], out)                       # k-1 < h < k
        if k - 1 >= 1:
            out = ite(h.eq(k - 1), (s[k - 2] + s[k - 1]) / 2, out)   # h == k-1 whole, 1 <= k-1 < L
        else:
            out = ite(h.eq(0), s[0], out)
    return out


SORT_LENS = (3, 4, 5)


def run(tier, seed):
    pr = Prover("C07", tier)
    cr = qr.load()
    p = T.sym("p")
    fq = F + "::Quantile::quantile"
    for L in (1, 2, 3, 4):
        def build():
            st = qr.sym_state(cr, count=T.num(L, INT), p=p)
            for i in range(4):
                st["n"][i] = T.num(i + 1, INT)
            return {"self": st}, [p.ge(0), p.le(1)]
        ex = Exec(cr)
        paths = ex.run(build, lambda e, r: e.call("Quantile", "quantile", r["self"], []))
        pre = "Quantile.quantile.small[len=%d]" % L
        hy = [p.ge(0), p.le(1)]
        pr.feasible(pre + ".hyps_sat", fq, hy)
        pr.no_panic(pre + ".no_panic", fq, paths)
        pr.sides(pre, fq, paths)
        vals = [T.sym("q%d" % i) for i in range(L)]
        spec = spec_quantile(vals, p)
        lo = vals[0]
        hi = vals[0]
        for v in vals[1:]:
            lo = ite(v.lt(lo), v, lo)
            hi = ite(v.gt(hi), v, hi)
        live = [pp for pp in paths if not pp.panic]
        pr.all_paths(pre + ".value", fq, [(pp.pc, pp.result.eq(spec)) for pp in live], cls={"len": L, "accessor": "quantile"})
        # p = 0 and p = 1 are instances; stated separately so the report names them
        for pv, want, nm in ((0, lo, "p0_is_min"), (1, hi, "p1_is_max")):
            pr.all_paths("%s.%s" % (pre, nm), fq, [(pp.pc + [p.eq(pv)], pp.result.eq(want)) for pp in live],
                         cls={"len": L, "accessor": "quantile"})
    # A-LIB validation by Kani: the assumed contract of float_ord::sort on the sizes used
    from kani_engine import KaniJob, Harness
    job = KaniJob("C07", timeout=1200, harness_timeout=900)
    job.include_module(F, "quantile.rs")
    for k in SORT_LENS:
        job.add(Harness("sort_floats_contract_%d" % k, "C07.lib.float_ord_sort.ascending_permutation[len=%d]" % k, "float_ord::sort as used by Quantile::{quantile,add}"))
    if SORT_LENS:
        pr.obs += job.run()
    import rs_crosscheck
    pr.obs += guarded("C07.engine.rs_crosscheck", lambda: rs_crosscheck.crosscheck("C07", ['Quantile']))
    meta = {
        "level": "proof",
        "checker_cmd": "./check C07 (rsx -> RS executor -> z3 QF_NRA/LRA)",
        "functions_under_contract": ["Quantile::quantile (len 1..4)", "Quantile::len", "Quantile::is_empty", "Quantile::p"],
        "source_files": [F],
        "extraction": EXTRACTION,
        "trusted_base": ["rsx + RS executor (own code)", "z3 5.1"],
        "assumptions": [A_REAL, A_LIB,
                        "A-LIB: float_ord::sort = ascending rearrangement of non-NaN values (executed as insertion sort by decisions; this assumed contract is itself CHECKED bit-precisely by Kani for slice lengths 1..5, the only ones Quantile uses), f64::ceil / max, core::cmp::min, easy_cast conv/conv_nearest exact on in-range integral values",
                        "real semantics makes len*p exact, so 'within rounding of a whole number either convention is acceptable' is not needed and not decided",
                        "permutation invariance is implied: the oracle is a function of the sorted values (the specification's own min/max network), and the stored prefix is in arrival order"],
        "explanation": "one obligation family per len in 1..4 with symbolic values in arrival order and symbolic p in [0,1]; result compared on every path with the oracle written from the statement.",
    }
    return pr.obs, meta, confirm


def confirm(ob):
    import replay
    from fractions import Fraction as Fr
    import itertools, math
    progs, exps = [], []
    for L in (1, 2, 3, 4):
        for perm in set(itertools.permutations([3.0, 1.0, 2.0, 1.0][:L])):
            for p in (0.0, 0.25, 0.5, 0.75, 1.0, 0.3, 0.9):
                progs.append({"type": "Quantile", "ctor": ["new", p], "ops": [["add", v] for v in perm], "observe": ["quantile"]})
                s = sorted(Fr(v) for v in perm)
                h = Fr(p) * L
                if h.denominator == 1 and 1 <= h < L:
                    e = (s[int(h) - 1] + s[int(h)]) / 2
                else:
                    e = s[max(math.ceil(h), 1) - 1]
                exps.append(e)
    results = replay.run_programs(progs)
    for prog, res, e in zip(progs, results, exps):
        if res.get("error"):
            return {"replay_error": res["error"]}
        a = res["obs"].get("quantile")
        if res["panic"] or a is None or abs(a - float(e)) > 1e-12:
            return {"program": prog, "expected": {"quantile": str(e)}, "actual": {"quantile": repr(a)}, "panic": res["panic"],
                    "confirmed_on_real_code": True}
    return {"confirmed_on_real_code": False, "note": "%d small samples agree" % len(progs)}
