from common import guarded
"""C14  Min and Max return the exact extreme of everything seen, in any order.  Engine K (+VL)."""
from kani_engine import KaniJob, Harness
import vl

F = "src/minmax.rs"

MIN_ATTRS = [
    "kani::requires(!self.x.is_nan())",
    "kani::modifies(self)",
    "kani::ensures(|_r| !self.x.is_nan() && if x.is_nan() { self.x == old(self.x) } else "
    "{ self.x <= old(self.x) && self.x <= x && (self.x == old(self.x) || self.x == x) })",
]
MAX_ATTRS = [
    "kani::requires(!self.x.is_nan())",
    "kani::modifies(self)",
    "kani::ensures(|_r| !self.x.is_nan() && if x.is_nan() { self.x == old(self.x) } else "
    "{ self.x >= old(self.x) && self.x >= x && (self.x == old(self.x) || self.x == x) })",
]


def run(tier, seed):
    job = KaniJob("C14")
    job.contract(F, "Min", "Estimate", "add", MIN_ATTRS)
    job.contract(F, "Max", "Estimate", "add", MAX_ATTRS)
    job.include_module(F, "minmax.rs")
    job.add(
        Harness("min_add_contract", "C14.Min.add.contract", F + "::<Min as Estimate>::add",
                text="proof_for_contract: " + "; ".join(MIN_ATTRS)),
        Harness("max_add_contract", "C14.Max.add.contract", F + "::<Max as Estimate>::add",
                text="proof_for_contract: " + "; ".join(MAX_ATTRS)),
        Harness("min_merge_via_contract", "C14.Min.merge.via_contract", F + "::<Min as Merge>::merge"),
        Harness("max_merge_via_contract", "C14.Max.merge.via_contract", F + "::<Max as Merge>::merge"),
        Harness("min_new_from_value_accessor", "C14.Min.new_from_value_min", F + "::Min::{new,default,from_value,min,estimate}"),
        Harness("max_new_from_value_accessor", "C14.Max.new_from_value_max", F + "::Max::{new,default,from_value,max,estimate}"),
        Harness("min_rel_semilattice", "C14.lemma.min_rel.assoc_comm_idem_unit", "contract relation min_rel (no crate code)"),
        Harness("max_rel_semilattice", "C14.lemma.max_rel.assoc_comm_idem_unit", "contract relation max_rel (no crate code)"),
    )
    obs = guarded("C14.engine.job.run@L38", lambda: job.run())
    obs += guarded("C14.engine.vl.run_lemmas@L39", lambda: vl.run_lemmas("C14", ["semilattice"]))
    meta = {
        "level": "proof",
        "checker_cmd": "cargo kani --no-default-features --features std -Z function-contracts -Z stubbing "
                       "(scratch copy of /repo + contracts/kani/minmax.rs); verus contracts/lemmas/history.rs",
        "functions_under_contract": [
            "<Min as Estimate>::add", "<Min as Merge>::merge", "Min::new", "Min::default", "Min::from_value", "Min::min",
            "<Min as Estimate>::estimate", "minmax::min",
            "<Max as Estimate>::add", "<Max as Merge>::merge", "Max::new", "Max::default", "Max::from_value", "Max::max",
            "<Max as Estimate>::estimate", "minmax::max"],
        "source_files": [F],
        "extraction": "none: Kani compiles the crate itself; cfg(kani)-only contract attributes and a harness module are spliced into a scratch copy",
        "trusted_base": ["Kani 0.68 / CBMC 6.11 IEEE-754 model of f64::min/max and comparisons",
                         "Verus 0.2026.09.13 (history lemma)", "rustc: &Self argument of merge is immutable"],
        "assumptions": [
            "A-CBMC: CBMC's bit-precise model of f64 comparison, f64::min and f64::max",
            "A-RUSTC: merge(&mut self, other: &Self) cannot modify `other` (no interior mutability, forbid(unsafe_code))",
            "extend/collect paths into Min/Max are covered by C20 (ingestion glue), not here",
            "the lifting from per-call contracts to all histories is the Verus semilattice lemma (contracts/lemmas/history.rs)"],
        "explanation": "Kani function contracts on Min::add / Max::add over the full f64 bit domain (NaN, +-inf, +-0.0), "
                       "merge proved modularly via stub_verified, semilattice laws of the contract relation, Verus fold/merge-tree lemma.",
    }
    return obs, meta, confirm


def _num_min(vals, sign):
    vs = [v for v in vals if v == v]
    if not vs:
        return sign * float("inf")
    return min(vs) if sign > 0 else max(vs)


def confirm(ob):
    """Replay Kani's counterexample through the public API of the real crate."""
    import replay
    from kani_engine import playback_floats
    fl = playback_floats(ob.cex)
    which = "Min" if ".Min." in ob.name else "Max" if ".Max." in ob.name else None
    if which is None or len(fl) < 2 or fl[0] != fl[0]:
        return None
    acc = "min" if which == "Min" else "max"
    a, x = fl[0], fl[1]
    if ".merge." in ob.name:
        prog = {"type": which, "ctor": ["from_value", a],
                "ops": [["merge", {"type": which, "ctor": ["from_value", x]}]], "observe": [acc]}
    else:
        prog = {"type": which, "ctor": ["from_value", a], "ops": [["add", x]], "observe": [acc]}
    res = replay.run_program(prog)
    exp = _num_min([a, x], 1 if which == "Min" else -1)
    act = res["obs"].get(acc)
    bad = res["panic"] is not None or act is None or not (act == exp)
    return {"program": prog, "expected": {acc: repr(exp)}, "actual": {acc: repr(act)}, "panic": res["panic"],
            "confirmed_on_real_code": bool(bad and not res["error"])}
