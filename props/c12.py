"""C12  Histogram construction accepts exactly the valid edge lists.  Engine K (+RS for the exact edges)."""
from hist_common import hist_job, hist_const_job, COMMON_META, F, FC

NAMES = [
    ("from_ranges_oracle", "from_ranges.oracle", "from_ranges/ranges/bins"),
    ("const_width_monotone_first", "with_const_width.monotone_first_zero", "with_const_width"),
]


def run(tier, seed):
    lens = [1, 2, 3, 4] if tier == "quick" else [1, 2, 3, 4, 10]
    # with_const_width is float heavy in CBMC (LEN 3: ~300 s, LEN 4: ~760 s): quick covers LEN 1, 2
    cw_lens = [1, 2] if tier == "quick" else [1, 2, 3, 4]
    obs = hist_job("C12", lens, NAMES[:1], unwind=16, timeout=1500, harness_timeout=600).run()
    obs += hist_job("C12", cw_lens, NAMES[1:], unwind=16, timeout=3000, harness_timeout=2400).run()
    if tier == "thorough":
        obs += hist_const_job("C12", [1, 3], NAMES[:1], unwind=9).run()
    try:
        import c12_rs
        obs += c12_rs.run(tier)
        rs = True
    except ImportError:
        rs = False
    meta = dict(COMMON_META)
    meta.update({
        "level": "proof",
        "checker_cmd": "cargo kani --no-default-features --features std --default-unwind 16 (scratch copy of /repo + contracts/kani/histogram.rs)",
        "functions_under_contract": ["Histogram::from_ranges", "Histogram::with_const_width", "Histogram::ranges", "Histogram::bins"],
        "source_files": [F, FC, "src/lib.rs"],
        "assumptions": [
            "with_const_width bit-precise harness: LEN in %s in this tier" % cw_lens,
            "configurations: LEN in %s, complete per LEN: input = LEN+3 fully symbolic f64 (all bit patterns) and symbolic length 0..LEN+3" % lens,
            "oracle written from the property statement inside the harness (first offending position, NaN before NotSorted at the same index, NotEnoughRanges only when no earlier error)",
            "with_const_width: bit-precise part = non-decreasing edges, no NaN, first edge == start, zero counts for finite start < end, |start|,|end| <= 1e30",
            "with_const_width edge i == start + i*(end-start)/LEN: exact-real statement (A-REAL); 'within a few ulps' is the rounding of three operations and is not proved" + ("" if rs else " (RS part not built yet)"),
            "A-CBMC",
        ],
        "explanation": "from_ranges is compared with an independent oracle for every input list; complete per LEN (unwinding assertions on).",
    })
    return obs, meta, confirm


def confirm(ob):
    """Replay Kani's counterexample for from_ranges through the public API."""
    import re
    import replay
    m = re.search(r"hist\[(\d+)\]\.from_ranges", ob.name)
    vals = (ob.cex or {}).get("playback_values") or []
    if not m or not vals:
        return None
    L = int(m.group(1))
    t = {1: "H1", 2: "H2", 3: "H3", 4: "H4", 10: "Histogram10"}.get(L)
    if t is None or len(vals) < L + 4:
        return None
    xs = [float(v["as_f64"]) for v in vals[:L + 3]]
    l = vals[L + 3].get("as_u64")
    if l is None or l > L + 3:
        return None
    inp = xs[:l]
    # oracle from the statement
    exp = None
    for i, r in enumerate(inp[:L + 1]):
        if r != r:
            exp = "NaN"
            break
        if i > 0 and inp[i - 1] > r:
            exp = "NotSorted"
            break
    if exp is None and len(inp) < L + 1:
        exp = "NotEnoughRanges"
    prog = {"type": t, "ctor": ["from_ranges", inp], "ops": [], "observe": ["ranges", "bins"]}
    res = replay.run_program(prog)
    if res.get("error"):
        return {"replay_error": res["error"]}
    got_err = res["obs"].get("ctor_err")
    if exp is None:
        same = got_err is None and [replay.bits(a) for a in res["obs"].get("ranges", [])] == [replay.bits(a) for a in inp[:L + 1]] \
            and res["obs"].get("bins") == [0] * L
    else:
        same = got_err == exp
    return {"program": prog, "expected": {"result": exp or "Ok(ranges unchanged, bins zero)"},
            "actual": {"ctor_err": got_err, "ranges": [repr(a) for a in res["obs"].get("ranges", [])], "bins": res["obs"].get("bins")},
            "panic": res["panic"], "confirmed_on_real_code": bool(not same or res["panic"])}
