"""C12  Histogram construction accepts exactly the valid edge lists.  Engine K (+RS for the exact edges)."""
from hist_common import hist_job, hist_const_job, COMMON_META, F, FC

NAMES = [
    ("from_ranges_oracle", "from_ranges.oracle", "from_ranges/ranges/bins"),
    ("const_width_monotone_first", "with_const_width.monotone_first_zero", "with_const_width"),
]


def run(tier, seed):
    lens = [1, 2, 3, 4] if tier == "quick" else [1, 2, 3, 4, 10]
    job = hist_job("C12", lens, NAMES, unwind=16, timeout=2400)
    obs = job.run()
    if tier == "thorough":
        obs += hist_const_job("C12", [1, 3], NAMES, unwind=9).run()
    try:
        import c12_rs
        obs += c12_rs.run(tier)
        rs = True
    except ImportError:
        rs = False
    meta = dict(COMMON_META)
    meta.update({
        "level": "proof",
        "checker_cmd": "cargo kani --no-default-features --features std --default-unwind 16 (scratch copy of /repo + contracts/kani/histogram.rs)",
        "functions_under_contract": ["Histogram::from_ranges", "Histogram::with_const_width", "Histogram::ranges", "Histogram::bins"],
        "source_files": [F, FC, "src/lib.rs"],
        "assumptions": [
            "configurations: LEN in %s, complete per LEN: input = LEN+3 fully symbolic f64 (all bit patterns) and symbolic length 0..LEN+3" % lens,
            "oracle written from the property statement inside the harness (first offending position, NaN before NotSorted at the same index, NotEnoughRanges only when no earlier error)",
            "with_const_width: bit-precise part = non-decreasing edges, no NaN, first edge == start, zero counts for finite start < end, |start|,|end| <= 1e30",
            "with_const_width edge i == start + i*(end-start)/LEN: exact-real statement (A-REAL); 'within a few ulps' is the rounding of three operations and is not proved" + ("" if rs else " (RS part not built yet)"),
            "A-CBMC",
        ],
        "explanation": "from_ranges is compared with an independent oracle for every input list; complete per LEN (unwinding assertions on).",
    })
    return obs, meta, None
