from common import guarded
"""C12  Histogram construction accepts exactly the valid edge lists.  Engine K (+RS for the exact edges)."""
from hist_common import hist_job, hist_const_job, COMMON_META, F, FC

NAMES = [
    ("from_ranges_oracle", "from_ranges.oracle", "from_ranges/ranges/bins"),
    ("const_width_monotone_first", "with_const_width.monotone_first_zero", "with_const_width"),
]


def const_width_ulps_corpus():
    """BOUNDED: edge i of with_const_width(start, end) within a few ulps (of max(|start|,|end|)) of start + i*(end-start)/LEN,
    the last within a few ulps of end, over 30 orders of magnitude and LEN up to 100 (real semantics cannot see drift)."""
    import math
    from fractions import Fraction as Fr
    import replay
    from common import Obligation, DISCHARGED, REFUTED, UNDECIDED
    ULPS = 4
    pairs = [(0.0, 1.0), (0.0, 1000.0), (-1.0, 1.0), (0.1, 0.7), (-3.7, 12.9), (1e-15, 3e-15), (1e15, 1e15 + 1000.0), (-1e30, 1e30), (1e-30, 1e30),
             (123456.789, 123457.789), (-0.3, 1e-3), (2.0 ** -20, 2.0 ** 20), (1e9, 1e9 + 1.0), (-1e-12, 1e-12)]
    progs, metas = [], []
    for ty, L in (("H4", 4), ("Histogram10", 10), ("H33", 33), ("H100", 100)):
        for a, b in pairs:
            progs.append({"type": ty, "ctor": ["with_const_width", a, b], "ops": [], "observe": ["ranges", "bins"]})
            metas.append((L, a, b))
    name = "C12.with_const_width.ulps_corpus"
    fn = F + "::define_histogram!::with_const_width"
    bound = "%d (start, end) pairs over 30 orders of magnitude x LEN in {4, 10, 33, 100}; tolerance %d ulps of max(|start|,|end|)" % (len(pairs), ULPS)
    results = replay.run_programs(progs, timeout=900)
    worst = 0.0
    for pg, res, (L, a, b) in zip(progs, results, metas):
        if res.get("error") or res["panic"]:
            return [Obligation(name, fn, "replay+fractions", UNDECIDED if res.get("error") else REFUTED, 0.0, str(res.get("error") or res["panic"]),
                               cex={"class": {"corpus": True}, "program": pg}, bounded=bound, kind="bounded")]
        edges = res["obs"].get("ranges") or []
        ulp = math.ulp(max(abs(a), abs(b)))
        bad = None
        if len(edges) != L + 1 or any(c != 0 for c in res["obs"].get("bins", [1])):
            bad = ("shape", None, None)
        elif replay.bits(edges[0]) != replay.bits(a) and not (edges[0] == a):
            bad = ("edge[0]", a, edges[0])
        else:
            for i, e in enumerate(edges):
                exact = Fr(a) + Fr(i) * (Fr(b) - Fr(a)) / L
                err = abs(Fr(e) - exact) / Fr(ulp)
                worst = max(worst, float(err))
                if err > ULPS:
                    bad = ("edge[%d]" % i, float(exact), e)
                    break
                if i > 0 and edges[i - 1] > e:
                    bad = ("order[%d]" % i, edges[i - 1], e)
                    break
        if bad:
            return [Obligation(name, fn, "replay+fractions", REFUTED, 0.0, "with_const_width(%r, %r), LEN %d: %s expected %r got %r" % (a, b, L, bad[0], bad[1], bad[2]),
                               cex={"class": {"corpus": True}, "program": pg, "statistic": bad[0], "expected": repr(bad[1]), "actual": repr(bad[2])},
                               bounded=bound, kind="bounded")]
    return [Obligation(name, fn, "replay+fractions", DISCHARGED, 0.0, "all edges within %d ulps (worst %.2f ulps)" % (ULPS, worst), bounded=bound, kind="bounded",
                       text="with_const_width edges vs exact rationals")]


def run(tier, seed):
    lens = [1, 2, 3, 4] if tier == "quick" else [1, 2, 3, 4, 10]
    # with_const_width is float heavy in CBMC (LEN 3: ~300 s, LEN 4: ~760 s): quick covers LEN 1, 2
    cw_lens = [1, 2] if tier == "quick" else [1, 2, 3, 4]
    obs = guarded("C12.engine.hist_job@L64", lambda: hist_job("C12", lens, NAMES[:1], unwind=16, timeout=1500, harness_timeout=600).run())
    obs += guarded("C12.engine.hist_job@L65", lambda: hist_job("C12", cw_lens, NAMES[1:], unwind=16, timeout=3000, harness_timeout=2400).run())
    obs += guarded("C12.engine.hist_const_job@L66", lambda: hist_const_job("C12", [1, 3], NAMES[:1], unwind=9).run())       # const-generic copy: both tiers (seconds)
    obs += guarded("C12.engine.hist_const_job@L67", lambda: hist_const_job("C12", cw_lens, NAMES[1:], unwind=9, timeout=3000).run())
    obs += guarded("C12.engine.const_width_ulps_corpus@L68", lambda: const_width_ulps_corpus())
    try:
        import c12_rs
        obs += c12_rs.run(tier)
        rs = True
    except ImportError:
        rs = False
    meta = dict(COMMON_META)
    meta.update({
        "level": "proof",
        "checker_cmd": "cargo kani --no-default-features --features std --default-unwind 16 (scratch copy of /repo + contracts/kani/histogram.rs)",
        "functions_under_contract": ["Histogram::from_ranges", "Histogram::with_const_width", "Histogram::ranges", "Histogram::bins"],
        "source_files": [F, FC, "src/lib.rs"],
        "assumptions": [
            "with_const_width bit-precise harness: LEN in %s in this tier" % cw_lens,
            "configurations: LEN in %s, complete per LEN: input = LEN+3 fully symbolic f64 (all bit patterns) and symbolic length 0..LEN+3" % lens,
            "oracle written from the property statement inside the harness (first offending position, NaN before NotSorted at the same index, NotEnoughRanges only when no earlier error)",
            "with_const_width: bit-precise part = non-decreasing edges, no NaN, first edge == start, zero counts for finite start < end, |start|,|end| <= 1e30",
            "'within a few ulps' is exercised only by a BOUNDED corpus (with_const_width.ulps_corpus, 4 ulps, LEN up to 100)",
            "with_const_width edge i == start + i*(end-start)/LEN: exact-real statement (A-REAL); 'within a few ulps' is the rounding of three operations and is not proved" + ("" if rs else " (RS part not built yet)"),
            "A-CBMC",
        ],
        "explanation": "from_ranges is compared with an independent oracle for every input list; complete per LEN (unwinding assertions on).",
    })
    return obs, meta, confirm


def confirm(ob):
    """Replay Kani's counterexample for from_ranges through the public API."""
    c = ob.cex or {}
    if c.get("program") and c.get("statistic"):
        return {"program": c["program"], "expected": {c["statistic"]: c.get("expected")}, "actual": {c["statistic"]: c.get("actual")},
                "confirmed_on_real_code": True}
    import re
    import replay
    m = re.search(r"hist(_const)?\[(\d+)\]\.from_ranges", ob.name)
    vals = (ob.cex or {}).get("playback_values") or []
    if not m or not vals:
        return None
    L = int(m.group(2))
    t = {1: "H1", 2: "H2", 3: "H3", 4: "H4", 10: "Histogram10"}.get(L)
    if m.group(1):
        t = "HC%d" % L if L <= 4 else None      # const-generic copy: cargo +nightly replay
    if t is None or len(vals) < L + 4:
        return None
    xs = [float(v["as_f64"]) for v in vals[:L + 3]]
    l = vals[L + 3].get("as_u64")
    if l is None or l > L + 3:
        return None
    inp = xs[:l]
    # oracle from the statement
    exp = None
    for i, r in enumerate(inp[:L + 1]):
        if r != r:
            exp = "NaN"
            break
        if i > 0 and inp[i - 1] > r:
            exp = "NotSorted"
            break
    if exp is None and len(inp) < L + 1:
        exp = "NotEnoughRanges"
    prog = {"type": t, "ctor": ["from_ranges", inp], "ops": [], "observe": ["ranges", "bins"]}
    res = replay.run_program(prog)
    if res.get("error"):
        return {"replay_error": res["error"]}
    got_err = res["obs"].get("ctor_err")
    if exp is None:
        same = got_err is None and [replay.bits(a) for a in res["obs"].get("ranges", [])] == [replay.bits(a) for a in inp[:L + 1]] \
            and res["obs"].get("bins") == [0] * L
    else:
        same = got_err == exp
    return {"program": prog, "expected": {"result": exp or "Ok(ranges unchanged, bins zero)"},
            "actual": {"ctor_err": got_err, "ranges": [repr(a) for a in res["obs"].get("ranges", [])], "bins": res["obs"].get("bins")},
            "panic": res["panic"], "confirmed_on_real_code": bool(not same or res["panic"])}
