"""C12  Histogram construction accepts exactly the valid edge lists.  Engine K (+RS for the exact edges)."""
from hist_common import hist_job, hist_const_job, COMMON_META, F, FC

NAMES = [
    ("from_ranges_oracle", "from_ranges.oracle", "from_ranges/ranges/bins"),
    ("const_width_monotone_first", "with_const_width.monotone_first_zero", "with_const_width"),
]


def run(tier, seed):
    lens = [1, 2, 3, 4] if tier == "quick" else [1, 2, 3, 4, 10]
    # with_const_width is float heavy in CBMC (LEN 3: ~300 s, LEN 4: ~760 s): quick covers LEN 1, 2
    cw_lens = [1, 2] if tier == "quick" else [1, 2, 3, 4]
    obs = hist_job("C12", lens, NAMES[:1], unwind=16, timeout=1500, harness_timeout=600).run()
    obs += hist_job("C12", cw_lens, NAMES[1:], unwind=16, timeout=3000, harness_timeout=2400).run()
    if tier == "thorough":
        obs += hist_const_job("C12", [1, 3], NAMES[:1], unwind=9).run()
    try:
        import c12_rs
        obs += c12_rs.run(tier)
        rs = True
    except ImportError:
        rs = False
    meta = dict(COMMON_META)
    meta.update({
        "level": "proof",
        "checker_cmd": "cargo kani --no-default-features --features std --default-unwind 16 (scratch copy of /repo + contracts/kani/histogram.rs)",
        "functions_under_contract": ["Histogram::from_ranges", "Histogram::with_const_width", "Histogram::ranges", "Histogram::bins"],
        "source_files": [F, FC, "src/lib.rs"],
        "assumptions": [
            "with_const_width bit-precise harness: LEN in %s in this tier" % cw_lens,
            "configurations: LEN in %s, complete per LEN: input = LEN+3 fully symbolic f64 (all bit patterns) and symbolic length 0..LEN+3" % lens,
            "oracle written from the property statement inside the harness (first offending position, NaN before NotSorted at the same index, NotEnoughRanges only when no earlier error)",
            "with_const_width: bit-precise part = non-decreasing edges, no NaN, first edge == start, zero counts for finite start < end, |start|,|end| <= 1e30",
            "with_const_width edge i == start + i*(end-start)/LEN: exact-real statement (A-REAL); 'within a few ulps' is the rounding of three operations and is not proved" + ("" if rs else " (RS part not built yet)"),
            "A-CBMC",
        ],
        "explanation": "from_ranges is compared with an independent oracle for every input list; complete per LEN (unwinding assertions on).",
    })
    return obs, meta, None
