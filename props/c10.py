from common import guarded
"""C10  Bias-corrected sample statistics follow their textbook definitions.  Engine RS."""
import terms as tm
from terms import T, UINT, REAL, TRUE, FALSE, And, Not, Or, real
from prove import Prover
import moments_rs as mr
from moments_rs import n_cases
from executor import Arr
from c01 import A_REAL, A_INT, A_LIB, EXTRACTION
from c03 import A_REALIZABLE
from c04 import TYPE_MAP


def moments_bias(pr, N):
    cr, name = mr.load_moments_crate(N)
    f = "src/moments/mod.rs::define_moments!(_, %d)" % N
    avg = T.sym("avg")
    M = {p: T.sym("M%d" % p) for p in range(2, N + 1)}
    mks = lambda n: cr.mk(name, n=n, avg=avg, m=Arr([M[p] for p in range(2, N + 1)]))
    rz = mr.realizable(M)
    acc = mr.check_accessor
    n = T.sym("n", UINT)
    acc(pr, cr, name, f, "sample_variance", n_cases(2, lambda n: ("eq", (M[2] / real(n)) * real(n) / (real(n) - 1)), extra_hyps=rz), mks)
    # sample_skewness: NaN (n=0), 0 (n=1), 0 for two distinct observations (M3 = 0, M2 > 0),
    # adjusted Fisher-Pearson  sqrt(n(n-1))/(n-2) * m3/m2^1.5  for n >= 3 (sign of m3 included)
    def g1(r, n=n):
        m2, m3 = M[2] / real(n), M[3] / real(n)
        return (r * (real(n) - 2) * m2 * tm.sqrt(m2)).eq(tm.sqrt(real(n) * (real(n) - 1)) * m3)
    cases = [("n=0", T.num(0, UINT), rz, ("nan",)),
             ("n=1", T.num(1, UINT), rz + [M[2].eq(0), M[3].eq(0)], ("eq", T.num(0, REAL))),
             ("n=2", T.num(2, UINT), rz + [M[2].gt(0), M[3].eq(0)], ("eq", T.num(0, REAL))),
             ("n>=3,M3>=0", n, [n.ge(3), n.lt(mr.NMAX), M[2].gt(0), M[3].ge(0)] + rz, ("pred", g1)),
             ("n>=3,M3<0", n, [n.ge(3), n.lt(mr.NMAX), M[2].gt(0), M[3].lt(0)] + rz, ("pred", g1))]
    acc(pr, cr, name, f, "sample_skewness", cases, mks)
    # sample_excess_kurtosis: NaN below four observations; (n-1)/((n-2)(n-3)) * ((n+1)*(m4/m2^2 - 3) + 6)
    def g2(r, n=n):
        m2, m4 = M[2] / real(n), M[4] / real(n)
        nn = real(n)
        return (r * (nn - 2) * (nn - 3) * m2 * m2).eq((nn - 1) * ((nn + 1) * (m4 - 3 * m2 * m2) + 6 * m2 * m2))
    cases = [("n=%d" % k, T.num(k, UINT), rz, ("nan",)) for k in range(0, 4)]
    cases.append(("n>=4", n, [n.ge(4), n.lt(mr.NMAX), M[2].gt(0)] + rz, ("pred", g2)))
    acc(pr, cr, name, f, "sample_excess_kurtosis", cases, mks)


def run(tier, seed):
    pr = Prover("C10", tier)
    cr = mr.load_crate()
    avg, M2 = T.sym("avg"), T.sym("M2")
    sums = {2: M2, 3: T.sym("M3"), 4: T.sym("M4")}
    rz = [M2.ge(0)]
    for ty in ("Variance", "Skewness", "Kurtosis"):
        f = mr.FILES[ty]
        mk = lambda n, ty=ty: mr.fixed_state(cr, ty, n, avg, sums)
        # sample variance = population variance * n/(n-1)
        mr.check_accessor(pr, cr, ty, f, "sample_variance",
                          n_cases(2, lambda n: ("eq", (M2 / real(n)) * real(n) / (real(n) - 1)), extra_hyps=rz), mk)
        if ty == "Variance":
            mr.check_accessor(pr, cr, ty, f, "variance_of_mean",
                              n_cases(2, lambda n: ("eq", (M2 / (real(n) - 1)) / real(n)),
                                      below=lambda k: ("nan",) if k == 0 else ("eq", T.num(0, REAL)), extra_hyps=rz), mk)
            mr.check_accessor(pr, cr, ty, f, "error",
                              n_cases(2, lambda n: ("root", (M2 / (real(n) - 1)) / real(n)),
                                      below=lambda k: ("nan",) if k == 0 else ("eq", T.num(0, REAL)), extra_hyps=rz), mk)
        else:
            mr.check_accessor(pr, cr, ty, f, "error_mean",
                              n_cases(2, lambda n: ("root", (M2 / (real(n) - 1)) / real(n)),
                                      below=lambda k: ("nan",) if k == 0 else ("eq", T.num(0, REAL)), extra_hyps=rz), mk)
    try:
        import c08
        c08.sample_variance_obligations(pr)
        wm = True
    except (ImportError, AttributeError):
        wm = False
    orders = [4, 5, 6, 8, 10]
    for N in orders:
        moments_bias(pr, N)
    import rs_crosscheck
    pr.obs += guarded("C10.engine.rs_crosscheck", lambda: rs_crosscheck.crosscheck("C10", ['Variance', 'Kurtosis', 'Moments6']))
    meta = {
        "level": "proof",
        "checker_cmd": "./check C10 (rsx -> RS executor -> sympy / z3 QF_NRA)",
        "functions_under_contract": ["Variance::{sample_variance,variance_of_mean,error}", "Skewness::{sample_variance,error_mean}",
                                     "Kurtosis::{sample_variance,error_mean}"] + (["WeightedMeanWithError::sample_variance"] if wm else []) +
                                    ["define_moments!(_, %d)::{sample_variance,sample_skewness,sample_excess_kurtosis,central_moment}" % N for N in orders],
        "source_files": ["src/moments/mod.rs", "src/moments/variance.rs", "src/moments/skewness.rs", "src/moments/kurtosis.rs", "src/weighted_mean.rs"],
        "extraction": EXTRACTION + "; define_moments_common! instantiated by token substitution",
        "trusted_base": ["rsx + RS executor (own code)", "sympy polynomial arithmetic", "z3 5.1 nlsat"],
        "assumptions": [A_REAL, A_INT, A_LIB, A_REALIZABLE,
                        "A-LIB: Float::powf(x, 1.5) = x*sqrt(x) with the obligation x >= 0 (this is what catches NaN for negative skew); num_traits::pow = repeated product",
                        "n = 2 is stated over two distinct observations (M3 = 0, M2 > 0); constant samples (M2 = 0) with n >= 2 are outside the property's quantifier (non-zero spread)",
                        "configurations: define_moments! orders %s" % orders],
        "explanation": "each bias-corrected accessor against its textbook definition for symbolic n at or above its minimum sample size and symbolic central sums; sentinels below.",
    }
    import vl
    pr.obs += vl.run_lemmas("C10", ["realizable", "bridge"])
    from confirm_rs import confirm_moment
    return pr.obs, meta, lambda ob: confirm_moment(ob, TYPE_MAP)
