"""C18  A serde round trip at any point is invisible to the rest of the computation.  Engine K (+ structural, + bounded).

The statement's premise is "with a lossless format".  Its executable form is contracts/kani/serde_fmt.rs, a minimal
lossless serde data format (token tape: integers verbatim, floats as bit patterns, field names kept).  What is left
to decide is the crate's side: the derive-generated Serialize / Deserialize code of every state struct, as configured
by the attributes in /repo's current source.  Contract (Kani, per type, all finite states, both reading modes):

    forall s: T with finite fields.   words(s) unchanged by serialize(s)                          (frame)
                                      deserialize(serialize(s)) is Ok  and  words(result) == words(s)

From word-for-word identity of the state the rest of the statement follows because every statistic and every
continuation (add / merge) is a deterministic function of the state words and its arguments: safe Rust, no statics,
no interior mutability (obligation `continuation.state_is_all_there_is`, structural).

Bounded stand-in (labelled bounded): the same round trip through the REAL serde_json (float_roundtrip) on the real
crate - checkpoints at every position of a fixed stream, statistics compared bit for bit with the uninterrupted run."""
import os
import re

from common import Obligation, DISCHARGED, REFUTED, UNDECIDED, REPO, Undecided
from kani_engine import KaniJob, Harness, KDIR
from glue_struct import _rsx

LIB = "src/lib.rs"
SCALAR = r"(?:f64|u64|i64)"
NESTED = {"Mean", "MeanWithError", "Variance", "Skewness", "WeightedMean"}

# (key, file, struct, path of the type inside the crate, unwind, macro expansion or None)
TYPES = [
    ("mean", "src/moments/mean.rs", "Mean", "crate::Mean", 16, None),
    ("variance", "src/moments/variance.rs", "Variance", "crate::Variance", 16, None),
    ("skewness", "src/moments/skewness.rs", "Skewness", "crate::Skewness", 16, None),
    ("kurtosis", "src/moments/kurtosis.rs", "Kurtosis", "crate::Kurtosis", 16, None),
    ("moments4", "src/moments/mod.rs", "M", "crate::Moments4", 16, ("define_moments_inner", ["name=M", "MAX_MOMENT=4"])),
    ("moments6", "src/moments/mod.rs", "M", "M6", 16, ("define_moments_inner", ["name=M", "MAX_MOMENT=6"])),
    ("min", "src/minmax.rs", "Min", "crate::Min", 16, None),
    ("max", "src/minmax.rs", "Max", "crate::Max", 16, None),
    ("quantile", "src/quantile.rs", "Quantile", "crate::Quantile", 22, None),
    ("weighted_mean", "src/weighted_mean.rs", "WeightedMean", "crate::WeightedMean", 16, None),
    ("weighted_mean_with_error", "src/weighted_mean.rs", "WeightedMeanWithError", "crate::WeightedMeanWithError", 16, None),
    ("covariance", "src/covariance.rs", "Covariance", "crate::Covariance", 16, None),
    ("histogram10", "src/histogram.rs", "Histogram", "crate::Histogram10", 23, ("define_histogram_inner", ["name=h", "LEN=10"])),
    ("histogram3", "src/histogram.rs", "Histogram", "h3::Histogram", 16, ("define_histogram_inner", ["name=h", "LEN=3"])),
]
SLOW = set()    # harnesses kept for the thorough tier only (none: every harness finishes within seconds)


def _find_struct(items, name):
    for it in items:
        if it["k"] == "struct_def" and it["name"] == name:
            return it
        if it["k"] == "mod":
            r = _find_struct(it["items"], name)
            if r is not None:
                return r
    return None


def _has_manual_impl(items, name):
    n = 0
    for it in items:
        if it["k"] == "impl" and it["target"].replace(" ", "") == name and it.get("trait"):
            tr = it["trait"].replace(" ", "")
            if tr.endswith("Serialize") or "Deserialize<" in tr or tr.endswith("Deserialize"):
                n += 1
        if it["k"] == "mod":
            n += 2 if _has_manual_impl(it["items"], name) else 0
    return n >= 2


CUSTOM = set()


def inventory():
    """-> (obligations, keys of the types whose harnesses can be built)"""
    obs, ok = [], []
    cache = {}
    for key, rel, sname, path, unwind, mac in TYPES:
        where = "%s::%s" % (rel, sname if not mac else "%s!(%s)" % (mac[0], ", ".join(mac[1])))
        name = "C18.%s.state_struct" % key
        try:
            if mac:
                ast = _rsx(["expand-serde", os.path.join(REPO, rel), mac[0]] + mac[1])
            else:
                if rel not in cache:
                    cache[rel] = _rsx(["parse", os.path.join(REPO, rel)])
                ast = cache[rel]
        except Undecided as ex:
            obs.append(Obligation(name, where, "structural", UNDECIDED, 0.0, "lost anchor: %s" % ex))
            continue
        st = _find_struct(ast["items"], sname)
        if st is None:
            obs.append(Obligation(name, where, "structural", UNDECIDED, 0.0, "lost anchor: struct %s not found" % sname))
            continue
        attrs = " ".join(st["attrs"]).replace(" ", "")
        derived = "Serialize" in attrs and "Deserialize" in attrs and (mac is not None or 'feature="serde"' in attrs)
        if not derived and not _has_manual_impl(ast["items"], sname):
            obs.append(Obligation(name, where, "structural", REFUTED, 0.0,
                                  "with the serde feature this estimator type implements neither a derived nor a manual Serialize + Deserialize: "
                                  "its state cannot be checkpointed at all",
                                  cex={"class": {"structural": True, "type": key}, "line": st.get("ln")}))
            continue
        bad = [f for f in st["fields"]
               if not re.fullmatch(r"%s|\[%s;.*\]|%s" % (SCALAR, SCALAR, "|".join(sorted(NESTED))), f["ty"].replace(" ", ""))]
        if bad:
            obs.append(Obligation(name, where, "structural", UNDECIDED, 0.0,
                                  "field %s: %s is outside the word-level harness (f64 / u64 / i64, arrays of them, nested estimator structs)" % (
                                      bad[0]["name"], bad[0]["ty"])))
            continue
        fattrs = sorted({a.replace(" ", "") for f in st["fields"] for a in f.get("attrs", []) if "serde" in a})
        # value-dependent customisation: the derive's default code treats every value alike, so a counterexample over the
        # superset "all finite words" transfers to reachable states; custom code may legitimately reject or normalise
        # unreachable states, so there a refutation must be confirmed on reachable states (the corpus) to count
        custom = (not derived) or any(re.search(r"serde\((?!with=\"BigArray\"\))", a) and
                                      re.search(r"with|skip_serializing_if|from|into|bound|getter|remote", a) for a in fattrs) \
            or any("serde(" in a.replace(" ", "") and re.search(r"from|into|remote|bound", a) for a in st["attrs"])
        if custom:
            CUSTOM.add(key)
        obs.append(Obligation(name, where, "structural", DISCHARGED, 0.0,
                              "Serialize + Deserialize %s; %d fields, all 64-bit scalars / arrays / nested estimator structs; serde field attributes: %s" % (
                                  "derived" if derived else "implemented by hand", len(st["fields"]), ", ".join(fattrs) or "none"),
                              text="struct %s { %s }" % (sname, "; ".join("%s %s: %s" % (" ".join(f.get("attrs", [])), f["name"], f["ty"]) for f in st["fields"]))))
        ok.append(key)
    # a struct that nests a customised one inherits the caveat
    nests = {"variance": ["mean"], "skewness": ["variance", "mean"], "kurtosis": ["skewness", "variance", "mean"],
             "weighted_mean_with_error": ["weighted_mean", "variance", "mean"]}
    for k, inner in nests.items():
        if any(i in CUSTOM for i in inner):
            CUSTOM.add(k)
    return obs, ok


def purity():
    """Every statistic and every continuation is a function of the state words: no hidden state anywhere in src/."""
    hits = []
    forbid = False
    for root, _, files in os.walk(os.path.join(REPO, "src")):
        for fn in files:
            if not fn.endswith(".rs"):
                continue
            p = os.path.join(root, fn)
            for k, line in enumerate(open(p).read().split("\n")):
                code = line.split("//")[0]
                if "#![forbid(unsafe_code)]" in code.replace(" ", ""):
                    forbid = True
                if re.search(r"\bstatic\s+mut\b|thread_local!|\b(Cell|RefCell|UnsafeCell|OnceCell|Mutex|RwLock)\s*<|\bAtomic[A-Z]\w*|\bunsafe\b", code):
                    hits.append("%s:%d" % (os.path.relpath(p, REPO), k + 1))
    name = "C18.continuation.state_is_all_there_is"
    if hits or not forbid:
        return [Obligation(name, "src/**/*.rs", "structural", UNDECIDED, 0.0,
                           "possible hidden state (%s)%s: 'equal state words => equal continuation' is not established structurally" % (
                               ", ".join(hits[:4]) or "none", "" if forbid else "; #![forbid(unsafe_code)] is gone"))]
    return [Obligation(name, "src/**/*.rs", "structural", DISCHARGED, 0.0,
                       "#![forbid(unsafe_code)], no static / thread_local / interior mutability / atomics in src/: accessors, add and merge are "
                       "functions of the state words and their arguments",
                       text="token scan of src/**/*.rs")]


# ------------------------------------------------------------------------------------------ bounded: real serde_json
XS = [0.1, 0.7, 0.1 + 0.2, 1e9 + 4.0, 2.5, -3.75, 1.0 / 3.0, 1e-7, 123456.789, 2.0 / 3.0, 3.141592653589793, 5e-324, 1e-310, 98765.4321]
WS = [0.5, 1.0 / 3.0, 2.0, 0.1, 7.0, 1e-3, 0.25, 3.0, 0.7, 1.1, 0.3, 2.2, 5.0, 0.9]
M_ACC = ["len", "mean", "sample_variance", "population_variance"]
ACC = {
    "Mean": ["len", "mean"],
    "Variance": M_ACC + ["error", "variance_of_mean"],
    "Skewness": M_ACC + ["error_mean", "skewness"],
    "Kurtosis": M_ACC + ["error_mean", "skewness", "kurtosis"],
    "Moments4": ["len", "mean", "sample_variance"] + [["central_moment", k] for k in (2, 3, 4)],
    "M6": ["len", "mean", "sample_variance"] + [["central_moment", k] for k in (2, 3, 4, 5, 6)],
    "Min": ["min"], "Max": ["max"],
    "Quantile": ["len", "quantile", "p"],
    "WeightedMean": ["mean", "sum_weights"],
    "WeightedMeanWithError": ["len", "weighted_mean", "sum_weights", "sum_weights_sq", "effective_len", "error", "unweighted_mean", "sample_variance",
                              "variance_of_weighted_mean"],
    "Covariance": ["len", "mean_x", "mean_y", "population_covariance", "sample_covariance", "population_variance_x", "population_variance_y", "pearson"],
    "Histogram10": ["bins", "ranges"], "H3": ["bins", "ranges"],
}
KEY2TY = {"mean": "Mean", "variance": "Variance", "skewness": "Skewness", "kurtosis": "Kurtosis", "moments4": "Moments4", "moments6": "M6",
          "min": "Min", "max": "Max", "quantile": "Quantile", "weighted_mean": "WeightedMean", "weighted_mean_with_error": "WeightedMeanWithError",
          "covariance": "Covariance", "histogram10": "Histogram10", "histogram3": "H3"}


# three streams: ordinary scale with long decimal expansions; spread of a few 2^-40 around 1 (tiny sums of squares);
# magnitudes around 1e-8 (tiny everything).  Weights / second coordinates are taken from WS.
STREAMS = {
    "mixed": XS,
    "tiny_spread": [1.0 + d * 2.0 ** -40 for d in (3, -1, 4, 1, -5, 9, 2, -6)],
    "tiny_scale": [1.1e-8, 2.3e-8, 1.7e-8, 3.1e-8, 2.9e-8, 1.3e-8],
}
QSTREAM = [float((7 * i * i + 3 * i) % 41) + (0.25 if i % 3 == 0 else 0.0) for i in range(26)]     # for the dense Quantile corpus


def _ops(ty, xs, lo, hi):
    if ty in ("WeightedMean", "WeightedMeanWithError", "Covariance"):
        return [["add2", xs[i], WS[i]] for i in range(lo, hi)]
    if ty in ("Histogram10", "H3"):
        return [["add", abs(xs[i]) % 7.0] for i in range(lo, hi)]
    return [["add", xs[i]] for i in range(lo, hi)]


def _ctor(ty):
    if ty == "Quantile":
        return ["new", 0.3]
    if ty == "Histogram10":
        return ["with_const_width", 0.1, 7.3]
    if ty == "H3":
        return ["from_ranges", [0.1, 1.0 / 3.0, 2.2, 7.3]]
    return ["new"]


def corpus(types, tier):
    """-> list of (type, label, reference program, checkpointed program)"""
    out = []
    for ty in types:
        acc = ACC[ty]
        first = 1 if ty in ("Min", "Max") else 0      # the empty Min / Max holds an infinity: outside "fields are finite"
        for sname, xs in STREAMS.items():
            n = len(xs)
            ref = {"type": ty, "ctor": _ctor(ty), "ops": _ops(ty, xs, 0, n), "observe": acc}
            for k in range(first, n + 1):
                out.append((ty, "stream %s: checkpoint after %d of %d observations" % (sname, k, n), ref,
                            {"type": ty, "ctor": _ctor(ty), "ops": _ops(ty, xs, 0, k) + [["serde_roundtrip"]] + _ops(ty, xs, k, n), "observe": acc}))
            if ty in ("Quantile",):
                continue                                 # no merge
            cuts = ((3, 9) if n > 9 else (2,)) if tier == "quick" else range(1, n)
            for cut in cuts:
                other = {"type": ty, "ctor": _ctor(ty), "ops": _ops(ty, xs, cut, n)}
                other_rt = {"type": ty, "ctor": _ctor(ty), "ops": _ops(ty, xs, cut, n) + [["serde_roundtrip"]]}
                out.append((ty, "stream %s: checkpoints of both operands before and of the result after a merge at %d" % (sname, cut),
                            {"type": ty, "ctor": _ctor(ty), "ops": _ops(ty, xs, 0, cut) + [["merge", other]] + _ops(ty, xs, 0, 2), "observe": acc},
                            {"type": ty, "ctor": _ctor(ty), "ops": _ops(ty, xs, 0, cut) + [["serde_roundtrip"], ["merge", other_rt], ["serde_roundtrip"]] + _ops(ty, xs, 0, 2),
                             "observe": acc}))
        if ty == "Quantile":
            # the marker bookkeeping (m, dm) matters only for the continuation: every checkpoint position x every later
            # observation point of a 26-value stream
            n = len(QSTREAM)
            step = 1 if tier == "thorough" else 2
            for end in range(6, n + 1, step):
                ref = {"type": ty, "ctor": _ctor(ty), "ops": _ops(ty, QSTREAM, 0, end), "observe": acc}
                for k in range(0, end, step):
                    out.append((ty, "dense: checkpoint after %d, observed after %d observations" % (k, end), ref,
                                {"type": ty, "ctor": _ctor(ty), "ops": _ops(ty, QSTREAM, 0, k) + [["serde_roundtrip"]] + _ops(ty, QSTREAM, k, end), "observe": acc}))
    return out


def _same(u, v):
    import replay
    if isinstance(u, list) and isinstance(v, list):
        return len(u) == len(v) and all(_same(a, b) for a, b in zip(u, v))
    if isinstance(u, float) and isinstance(v, float):
        # two NaNs count as equal: rustc folds the constant reference program at compile time (0/0 -> +NaN) while the
        # restored copy computes at run time (x86: -NaN) - an artefact of the replay program, not of the crate
        return replay.bits(u) == replay.bits(v) or (u != u and v != v)
    return u == v


def run_corpus(types, tier):
    """-> (per-type first difference or None, per-type count, error or None)"""
    import replay
    cases = corpus(types, tier)
    import json as _json
    progs, index = [], {}

    def slot(pr):
        key = _json.dumps(pr, sort_keys=True)
        if key not in index:
            index[key] = len(progs)
            progs.append(pr)
        return index[key]
    slots = [(slot(a), slot(b)) for _, _, a, b in cases]
    res = replay.run_programs(progs, timeout=1800)
    diff, count = {}, {}
    for i, (ty, label, a, b) in enumerate(cases):
        ra, rb = res[slots[i][0]], res[slots[i][1]]
        if ra.get("error") or rb.get("error"):
            return diff, count, (ra.get("error") or rb.get("error")) + " " + (ra.get("raw") or rb.get("raw") or "")[-600:]
        count[ty] = count.get(ty, 0) + 1
        if ty in diff:
            continue
        if rb["panic"] or ra["panic"]:
            if rb["panic"] != ra["panic"]:
                diff[ty] = {"label": label, "program": b, "statistic": "panic", "expected": repr(ra["panic"]), "actual": repr(rb["panic"])}
            continue
        for k, u in ra["obs"].items():
            v = rb["obs"].get(k)
            if v is None or not _same(u, v):
                diff[ty] = {"label": label, "program": b, "statistic": k, "expected": repr(u), "actual": repr(v)}
                break
    return diff, count, None


def bounded_obligations(keys, tier):
    types = [KEY2TY[k] for k in keys]
    obs = []
    try:
        diff, count, err = run_corpus(types, tier)
    except Exception as ex:          # the stand-in must never mask the verdict of the contract
        diff, count, err = {}, {}, repr(ex)
    for k in keys:
        ty = KEY2TY[k]
        name = "C18.%s.serde_json_checkpoints" % k
        bound = "bounded: %d fixed streams (%s values), checkpoint at every position, %s merge cuts%s; real serde_json 1.x with float_roundtrip" % (
            len(STREAMS), "/".join(str(len(v)) for v in STREAMS.values()), "1-2" if tier == "quick" else "all",
            "; dense checkpoint x observation grid on a 26-value stream" if ty == "Quantile" else "")
        f = "serde_json::{to_string, from_str} o derive(Serialize, Deserialize) on %s" % ty
        if err:
            obs.append(Obligation(name, f, "native-replay", UNDECIDED, 0.0, "replay build/run failed: %s" % err[:400], bounded=bound, kind="bounded"))
        elif ty in diff:
            d = diff[ty]
            obs.append(Obligation(name, f, "native-replay", REFUTED, 0.0,
                                  "%s: %s is %s on the restored copy, %s uninterrupted" % (d["label"], d["statistic"], d["actual"], d["expected"]),
                                  bounded=bound, kind="bounded", cex={"class": {"type": k, "corpus": True}, "replay": d}))
        else:
            obs.append(Obligation(name, f, "native-replay", DISCHARGED, 0.0,
                                  "%d checkpointed histories bit-identical to the uninterrupted ones" % count.get(ty, 0), bounded=bound, kind="bounded"))
    return obs, diff


_DIFF = {}


def confirm(ob):
    """A refuted contract is replayed through the real serde_json on the real crate: the checkpoint corpus of that type."""
    cex = ob.cex or {}
    r = cex.get("replay")
    if not r:
        key = (cex.get("class") or {}).get("type") or next((k for k in KEY2TY if ".%s." % k in ob.name), None)
        r = _DIFF.get(KEY2TY.get(key))
    if r:
        return {"program": r["program"], "expected": {r["statistic"]: r["expected"]}, "actual": {r["statistic"]: r["actual"]},
                "note": r["label"], "confirmed_on_real_code": True}
    return None


confirm.max_calls = 1000      # a lookup of the corpus result, no search


def run(tier, seed):
    obs, keys = inventory()
    obs += purity()
    job = KaniJob("C18", features="std,serde", timeout=3000 if tier == "thorough" else 1500, jobs=14,
                  harness_timeout=2400 if tier == "thorough" else 600)
    job.relax_lint(LIB, "unsafe_code")
    job.include_module(LIB, "serde_fmt.rs", modname="verif_serde_fmt")
    inst = ["crate::define_moments!(M6, 6);", "crate::define_histogram!(h3, 3);"]
    info = {t[0]: t for t in TYPES}
    for k in keys:
        inst.append("rt!(serde_map_%s, serde_seq_%s, %s, %d);" % (k, k, info[k][3], info[k][4]))
        for mode in ("map", "seq"):
            hn = "serde_%s_%s" % (mode, k)
            if tier == "quick" and hn in SLOW:
                continue
            where = "%s::{<%s as Serialize>::serialize, <%s as Deserialize>::deserialize} (derive-generated)" % (info[k][1], info[k][2], info[k][2])
            job.add(Harness(hn, "C18.%s.roundtrip_identity[%s]" % (k, "by_name" if mode == "map" else "positional"), where,
                            text="forall finite s: serialize(s) leaves s unchanged; deserialize(serialize(s)) is Ok and equals s word for word "
                                 "(lossless token format, %s)" % ("fields matched by name" if mode == "map" else "fields by position")))
    job.append(LIB, '\n#[cfg(kani)]\npub(crate) mod verif_kani18 {\n    #![allow(unused)]\n    use super::*;\n    include!("%s");\n    %s\n}\n' % (
        os.path.join(KDIR, "serde_roundtrip.rs"), "\n    ".join(inst)))
    k_obs = job.run() if keys else []
    b_obs, diff = bounded_obligations(keys, tier)
    _DIFF.update(diff)
    for o in k_obs:
        key = next((k for k in keys if o.name.startswith("C18.%s." % k)), None)
        if o.status == REFUTED and key in CUSTOM and KEY2TY[key] not in diff:
            o.status = UNDECIDED
            o.detail = ("counterexample over ALL finite state words, but this type has hand-written / value-dependent (de)serialisation logic that may "
                        "legitimately reject or normalise unreachable states, and the reachable-state corpus shows no difference: not a verdict. " + (o.detail or ""))[:600]
    obs += k_obs + b_obs
    meta = {
        "level": "proof",
        "checker_cmd": "cargo kani --no-default-features --features std,serde (scratch copy + contracts/kani/{serde_fmt,serde_roundtrip}.rs); "
                       "cargo run --release in .cache/replay_serde (serde_json, bounded)",
        "functions_under_contract": ["<%s as Serialize>::serialize / <%s as Deserialize>::deserialize (derive-generated, %s)" % (t[2], t[2], t[1]) for t in TYPES
                                     if t[0] in keys],
        "source_files": sorted({t[1] for t in TYPES}) + ["Cargo.toml"],
        "extraction": "none: Kani compiles the crate with its serde feature; cfg(kani) harness modules are appended to src/lib.rs of a scratch copy; "
                      "`#![forbid(unsafe_code)]` is lifted under cfg(kani) only (the harness reads a struct's words through a raw pointer)",
        "trusted_base": ["Kani 0.68 / CBMC 6.11", "serde 1.0.229 / serde_derive 1.0.229 / serde-big-array 0.5.1 are COMPILED INTO the proof (not assumed)",
                         "contracts/kani/serde_fmt.rs is lossless by construction (the statement's premise made executable)"],
        "assumptions": [
            "A-FORMAT: the format is lossless - the premise of the statement.  The proof uses the token format of serde_fmt.rs; serde_json (float_roundtrip) + ryu "
            "are exercised only by the bounded corpus, never proved",
            "states: EVERY assignment of finite 64-bit words to the struct (f64 fields finite; integer fields below 0x7FF0_0000_0000_0000), a superset of the "
            "states reachable by adds and merges with finite fields",
            "'all statistics bit-for-bit' and 'continuing the stream gives bit-for-bit the uninterrupted results' follow from word-for-word identity of the state "
            "because accessors, add and merge are deterministic functions of state words and arguments (obligation continuation.state_is_all_there_is)",
            "configurations: define_moments! N in {4, 6}; define_histogram! LEN in {10, 3}; reading modes: by name (self-describing, like serde_json) and positional",
            "A-CBMC"],
        "explanation": "loop-bounded only by the struct's size (unwinding assertions on): complete per harness over all finite states.",
    }
    return obs, meta, confirm
