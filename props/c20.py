from common import guarded
"""C20  Every ingestion path builds the same estimator; concatenate! adds nothing.  Engine K (+RS structural)."""
import os
import kjobs
from kani_engine import KaniJob, Harness, KDIR
import terms as tm
from terms import T, INT, UINT, REAL, TRUE, FALSE
from prove import Prover
from executor import Exec

BOUND = "input sequences of length <= 3 (unwind 5); the loop bodies do not depend on the length"


def estimate_same_term(pr):
    """estimate() evaluates to the very same operation DAG as the headline accessor on every path:
    same operations in the same order on the same fields, hence bit-identical f64 results."""
    import moments_rs as mr
    import quantile_rs as qr
    cr = mr.load_crate()
    avg = T.sym("avg")
    sums = {2: T.sym("M2"), 3: T.sym("M3"), 4: T.sym("M4")}
    n = T.sym("n", UINT)
    for ty, head in (("Mean", "mean"), ("Variance", "population_variance"), ("Skewness", "skewness"), ("Kurtosis", "kurtosis")):
        for case, nv, hyps in (("n=0", T.num(0, UINT), []), ("n>=1", n, [n.ge(1), sums[2].gt(0)])):
            mk = lambda: ({"self": mr.fixed_state(cr, ty, nv, avg, sums)}, list(hyps))
            pa = Exec(cr).run(mk, lambda e, r: e.call(ty, "estimate", r["self"], []))
            pb = Exec(cr).run(mk, lambda e, r: e.call(ty, head, r["self"], []))
            ok = len(pa) == len(pb) and all(a.result == b.result and [c.key() for c in a.pc] == [c.key() for c in b.pc]
                                            for a, b in zip(pa, pb))
            pr.holds("%s.estimate.same_term[%s]" % (ty, case), mr.FILES[ty] + "::<%s as Estimate>::estimate" % ty, [],
                     TRUE if ok and pa else FALSE)
    crq = qr.load()
    for c in (0, 3, 7):
        def mk():
            st = qr.sym_state(crq, count=T.num(c, INT), p=T.sym("p"))
            for j in range(4):
                st["n"][j] = T.num(j + 1, INT) if c < 5 else st["n"][j]
            return {"self": st}, [T.sym("p").ge(0), T.sym("p").le(1)]
        pa = Exec(crq).run(mk, lambda e, r: e.call("Quantile", "estimate", r["self"], []))
        pb = Exec(crq).run(mk, lambda e, r: e.call("Quantile", "quantile", r["self"], []))
        ok = len(pa) == len(pb) and all(a.result == b.result for a, b in zip(pa, pb))
        pr.holds("Quantile.estimate.same_term[count=%d]" % c, qr.F + "::<Quantile as Estimate>::estimate", [], TRUE if ok and pa else FALSE)


def run(tier, seed):
    job = KaniJob("C20", timeout=2400, harness_timeout=1500, jobs=14)
    job.include_module(kjobs.MOD, "moments.rs")
    job.include_module(kjobs.MOD, "ingest_moments.rs", modname="verif_ingest")
    job.include_module(kjobs.MOD, "moments_c20.rs", modname="verif_kani20")
    job.include_module(kjobs.MM, "ingest_minmax.rs", modname="verif_ingest")
    job.include_module(kjobs.WM, "ingest_wm.rs", modname="verif_ingest")
    job.include_module(kjobs.COV, "ingest_cov.rs", modname="verif_ingest")
    job.append(kjobs.LIB, '\n#[cfg(kani)]\nmod vconcat {\n    #![allow(unused)]\n    include!("%s");\n}\n' % os.path.join(KDIR, "concat.rs"))
    job.append(kjobs.LIB, '\n#[cfg(kani)]\nmod vm4 {\n    crate::define_moments!(M, 4);\n    mod verif_kani {\n        #![allow(unused)]\n'
                          '        use super::*;\n        include!("%s");\n    }\n}\n' % os.path.join(KDIR, "moments_n.rs"))
    job.add(Harness("concat_base", "C20.concatenate.base_new_default", "concatenate!::{new,default}"),
            Harness("concat_step", "C20.concatenate.step_each_field_as_standalone", "concatenate!::add and generated accessors"),
            Harness("concat_collect", "C20.concatenate.collect", "impl_from_iterator!(concatenate struct)", bounded=BOUND))
    for h, ob, fn in (("mean_ingest_glue", "Mean", "impl_from_iterator!/impl_extend!(Mean)"),
                      ("variance_ingest_glue", "Variance", "impl_from_iterator!/impl_extend!(Variance)"),
                      ("skewness_ingest_glue", "Skewness", "impl_from_iterator!/impl_extend!(Skewness)"),
                      ("kurtosis_ingest_glue", "Kurtosis", "impl_from_iterator!/impl_extend!(Kurtosis)"),
                      ("minmax_ingest_glue", "MinMax", "impl_from_iterator!(Min, Max), impl_extend!(Min), estimate"),
                      ("wm_ingest_glue", "WeightedMean", "FromIterator/Extend<(f64,f64)|&(f64,f64)> for WeightedMean"),
                      ("wme_ingest_glue", "WeightedMeanWithError", "FromIterator/Extend for WeightedMeanWithError"),
                      ("cov_ingest_glue", "Covariance", "FromIterator/Extend for Covariance"),
                      ("vm4::verif_kani::mn_ingest_glue", "Moments4", "impl_from_iterator!/impl_extend!(define_moments! type)")):
        job.add(Harness(h, "C20.%s.ingest_glue[len<=3]" % ob, fn, bounded=BOUND))
    obs = guarded("C20.engine.job.run@L68", lambda: job.run())
    pr = Prover("C20", tier)
    estimate_same_term(pr)
    obs += pr.obs
    import glue_struct
    obs += guarded("C20.engine.glue_struct.glue_obligations@L73", lambda: glue_struct.glue_obligations("C20"))
    meta = {
        "level": "proof",
        "checker_cmd": "cargo kani -Z stubbing (scratch copy + contracts/kani/{ingest_*,concat,moments_c20}.rs); RS structural check for estimate()",
        "functions_under_contract": ["impl_from_iterator!/impl_extend! expansions for Mean, Variance, Skewness, Kurtosis, Min, Max, define_moments! types",
                                     "FromIterator/Extend impls of WeightedMean, WeightedMeanWithError, Covariance", "concatenate!::{new,default,add,accessors,collect}",
                                     "<T as Estimate>::estimate for Mean, Variance, Skewness, Kurtosis, Quantile, Min, Max"],
        "source_files": ["src/macros.rs", "src/traits.rs", "src/weighted_mean.rs", "src/covariance.rs", "src/minmax.rs", "src/moments/mod.rs", "src/lib.rs"],
        "extraction": "none for K (the crate's own macros are expanded by rustc in a scratch copy); RS: rsx re-parse for the estimate() term comparison",
        "trusted_base": ["Kani 0.68 / CBMC 6.11, kani::stub", "rsx + RS executor (term identity)"],
        "assumptions": ["ingest.glue harnesses are BOUNDED in the input length (<= 3) and are listed under `bounded`, not counted as proved; add is replaced by an order-sensitive recorder "
                        "(two paths agree for all inputs only if they issue the same add calls in the same order from the same state); Min/Max use the real add",
                        "concatenate!: inductive step from arbitrary field states + base (new/default) is complete; Variance::add replaced by a recorder in the step harness",
                        "estimate(): bit-for-bit by Kani for Min/Max; for Mean/Variance/Skewness/Kurtosis/Quantile by term identity of the two symbolic executions (same operations in the same order, deterministic f64)",
                        "generated accessors of concatenate! are checked bit-for-bit for mean/min/max (concat_step); the same token template `self.$field.$statistic()` produces every other accessor (comparing two float divisions bit-for-bit did not terminate in CBMC within 25 min)",
                        "glue.structural.*: AST-shape contract `for <pat> in iter { e.add(<pat vars>) }` checked on the real source (rsx) for the 4 macro arms and the 12 explicit impls; a body of another shape is advisory-undecided and left to the bounded Kani harness",
                        "Max has no Extend impl in this crate (compile-time fact)"],
        "explanation": "complete obligations: estimate forwards, concatenate base/step/accessors, and the structural contract of every FromIterator/Extend body "
                       "(one add per item, in order, components in order: all lengths); bounded: the Kani agreement harnesses for sequences up to length 3.",
    }
    return obs, meta, confirm


def confirm(ob):
    """estimate() vs the headline accessor on short streams of the real crate (bit for bit)."""
    import re
    import replay
    if ob.name.startswith("C20.concatenate.collect"):
        return confirm_concat_collect()
    m = re.match(r"C20\.(\w+)\.estimate\.same_term", ob.name)
    if not m:
        return None
    ty = m.group(1)
    head = {"Mean": "mean", "Variance": "population_variance", "Skewness": "skewness", "Kurtosis": "kurtosis", "Quantile": "quantile"}.get(ty)
    if head is None:
        return None
    xs = [7.0, -1.5, 0.25, 3.0, 0.1, 12.0, 2.5]
    progs = []
    for p in ([0.0, 0.3, 1.0] if ty == "Quantile" else [None]):
        for k in range(len(xs) + 1):
            progs.append({"type": ty, "ctor": ["new"] + ([p] if p is not None else []), "ops": [["add", x] for x in xs[:k]], "observe": ["estimate", head]})
    for pg, r in zip(progs, replay.run_programs(progs)):
        a, b = r["obs"].get("estimate"), r["obs"].get(head)
        if a is None or b is None:
            continue
        if replay.bits(a) != replay.bits(b) and not (a != a and b != b):
            return {"program": pg, "expected": {"estimate": "bits of %s() = %r" % (head, b)}, "actual": {"estimate": repr(a)}, "confirmed_on_real_code": True}
    return None


def confirm_concat_collect():
    """collect() into a concatenate! struct (by value / by reference, exact-size and size-hint-less sources) against the add loop."""
    import replay
    seqs = [[], [2.5], [3.0, -1.0], [1.0, 7.0, -4.0, 2.0], [5.0, 5.0, 9.0, -2.0, 0.5]]
    progs = []
    for xs in seqs:
        progs.append({"type": "ConcatMinMax", "ctor": ["new"], "ops": [["add", x] for x in xs], "observe": ["min", "max"]})
        for how in ("collect", "collect_ref", "collect_opaque", "collect_ref_opaque"):
            progs.append({"type": "ConcatMinMax", "ctor": [how, xs], "ops": [], "observe": ["min", "max"]})
    res = replay.run_programs(progs)
    for i in range(0, len(progs), 5):
        base = res[i]
        if base.get("error"):
            return {"replay_error": base["error"]}
        for j in range(1, 5):
            r = res[i + j]
            for k in ("min", "max"):
                u, v = base["obs"].get(k), r["obs"].get(k)
                if r["panic"] or u is None or v is None or (replay.bits(u) != replay.bits(v) and not (u != u and v != v)):
                    return {"program": progs[i + j], "expected": {k: repr(u) + " (add loop)"}, "actual": {k: repr(v), "panic": r["panic"]},
                            "confirmed_on_real_code": True}
    return {"confirmed_on_real_code": False, "note": "%d collect variants agree with the add loop on the real crate" % (len(progs) - len(seqs))}
