"""Registry of the K harnesses outside the histogram module, and the job builder."""
from kani_engine import KaniJob, Harness

MOD = "src/moments/mod.rs"
COV = "src/covariance.rs"
WM = "src/weighted_mean.rs"
MM = "src/minmax.rs"
QU = "src/quantile.rs"
LIB = "src/lib.rs"

# harness -> (properties, obligation suffix, function(s) under contract, file key)
REG = {}


def reg(name, props, ob, func, where, **kw):
    REG[name] = dict(props=props, ob=ob, func=func, where=where, kw=kw)


for T, t in (("Mean", "mean"), ("Variance", "variance"), ("Skewness", "skewness"), ("Kurtosis", "kurtosis")):
    reg("%s_merge_empty_right" % t, ["C11"], "%s.merge_empty_right" % T, "<%s as Merge>::merge" % T, "moments")
    reg("%s_merge_empty_left" % t, ["C11"], "%s.merge_empty_left" % T, "<%s as Merge>::merge, %s::{new,default}" % (T, T), "moments")
    reg("%s_len_adds" % t, ["C11"], "%s.len_adds_is_empty_frame" % T, "<%s as Merge>::merge, %s::{len,is_empty}" % (T, T), "moments")
reg("variance_nonneg_add", ["C17"], "Variance.nonneg.add", "<Variance as Estimate>::add", "moments")
reg("variance_nonneg_merge", ["C17"], "Variance.nonneg.merge", "<Variance as Merge>::merge", "moments")
reg("variance_nonneg_new", ["C17"], "Variance.nonneg.base", "Variance::{new,default}", "moments")
reg("variance_accessors_not_negative", ["C17"], "Variance.variance_accessors_not_negative",
    "Variance::{population_variance,sample_variance,variance_of_mean}", "moments")
reg("skewness_nonneg_add", ["C17"], "Skewness.nonneg.add", "<Skewness as Estimate>::add", "moments")
reg("kurtosis_nonneg_add", ["C17"], "Kurtosis.nonneg.add", "<Kurtosis as Estimate>::add", "moments")
reg("kurtosis_nonneg_merge", ["C17"], "Kurtosis.nonneg.merge", "<Kurtosis as Merge>::merge (incl. Skewness/Variance merge)", "moments")
reg("sentinels_empty", ["C16"], "moments.sentinels[n=0]", "Mean/Variance/Skewness/Kurtosis accessors", "moments")
reg("sentinels_one", ["C16"], "moments.sentinels[n=1]", "Variance/Skewness/Kurtosis accessors", "moments")
reg("sentinels_two_plus", ["C16"], "moments.sentinels[n>=2]", "Variance/Kurtosis accessors", "moments")
reg("one_observation_exact", ["C16"], "moments.one_observation_exact", "Mean/Variance/Skewness/Kurtosis::{new,add,accessors}", "moments")
reg("constant_stream_step", ["C16"], "Kurtosis.constant_stream_step", "<Kurtosis as Estimate>::add", "moments")
reg("constant_stream_step_lower", ["C16"], "Mean_Variance_Skewness.constant_stream_step", "<Mean/Variance/Skewness as Estimate>::add", "moments")
reg("estimate_forwards", ["C20"], "Mean_Variance.estimate_forwards_bits", "<Mean/Variance as Estimate>::estimate", "moments")

reg("cov_merge_empty_right", ["C11"], "Covariance.merge_empty_right", "<Covariance as Merge>::merge", "cov")
reg("cov_merge_empty_left", ["C11"], "Covariance.merge_empty_left", "<Covariance as Merge>::merge", "cov")
reg("cov_len_adds", ["C11"], "Covariance.len_adds_is_empty_frame", "<Covariance as Merge>::merge, len, is_empty", "cov")
reg("cov_nonneg_add", ["C17"], "Covariance.nonneg.add", "Covariance::add", "cov")
reg("cov_nonneg_merge", ["C17"], "Covariance.nonneg.merge", "<Covariance as Merge>::merge", "cov")
reg("cov_accessors_not_negative", ["C17"], "Covariance.variance_accessors_not_negative", "Covariance::{population,sample}_variance_{x,y}, new", "cov")
reg("cov_sentinels", ["C16"], "Covariance.sentinels[n<=2]", "Covariance accessors", "cov")
reg("cov_one_observation_exact", ["C16"], "Covariance.one_observation_exact", "Covariance::{new,add,accessors}", "cov")
reg("cov_constant_stream_step", ["C16"], "Covariance.constant_stream_step", "Covariance::add", "cov")

reg("wm_merge_empty_right", ["C11"], "WeightedMean.merge_empty_right", "<WeightedMean as Merge>::merge", "wm")
reg("wm_merge_empty_left", ["C11"], "WeightedMean.merge_empty_left", "<WeightedMean as Merge>::merge", "wm")
reg("wm_merge_frame_other", ["C11"], "WeightedMean.merge_frame_other", "<WeightedMean as Merge>::merge", "wm")
reg("wm_valid_add", ["C11"], "WeightedMean.is_valid.add", "WeightedMean::add", "wm")
reg("wme_merge_empty_right_left", ["C11"], "WeightedMeanWithError.merge_empty_right_left_len", "<WeightedMeanWithError as Merge>::merge", "wm")
reg("wm_sentinels", ["C16"], "WeightedMean.sentinels", "WeightedMean::{new,mean,sum_weights,is_empty}", "wm")
reg("wme_sentinels", ["C16"], "WeightedMeanWithError.sentinels", "WeightedMeanWithError accessors", "wm")
reg("wme_zero_weight_frame", ["C16"], "WeightedMeanWithError.zero_weight_frame", "WeightedMeanWithError::add", "wm")
reg("wm_one_observation_exact", ["C16"], "WeightedMean.one_observation_exact", "WeightedMean/WeightedMeanWithError::{new,add,accessors}", "wm")

for N in (4, 6):
    for h, props, ob, func in (
            ("mn_merge_empty_right_left", ["C11"], "merge_empty_right_left", "merge/new/default"),
            ("mn_len_adds", ["C11"], "len_adds_is_empty_frame", "merge/len/is_empty"),
            ("mn_sentinels", ["C16"], "sentinels[n<=4]", "accessors"),
            ("mn_one_observation_exact", ["C16"], "one_observation_exact", "new/add/central_moment"),
            ("mn_constant_stream_step", ["C16"], "constant_stream_step", "add"),
            ("mn_nonneg_add", ["C17"], "nonneg.add", "add"),
            ("mn_nonneg_merge", ["C17"], "nonneg.merge", "merge")):
        reg("vm%d::verif_kani::%s" % (N, h), props, "Moments%d.%s" % (N, ob), "define_moments!(_, %d)::%s" % (N, func), "mn%d" % N,
            order=N)


def job_for(prop, tier, timeout=1500, harness_timeout=600, only=None, exclude=()):
    job = KaniJob(prop, timeout=timeout, harness_timeout=harness_timeout, jobs=14)
    used = set()
    for name, r in REG.items():
        if prop not in r["props"]:
            continue
        if only is not None and name not in only:
            continue
        if name in exclude:
            continue
        used.add(r["where"])
        job.add(Harness(name, "%s.%s" % (prop, r["ob"]), r["func"]))
    if "moments" in used:
        job.include_module(MOD, "moments.rs")
    if "cov" in used:
        job.include_module(COV, "covariance.rs")
    if "wm" in used:
        job.include_module(WM, "weighted.rs")
    for N in (4, 6):
        if "mn%d" % N in used:
            from kani_engine import KDIR
            import os
            job.append(LIB, '\n#[cfg(kani)]\nmod vm%d {\n    crate::define_moments!(M, %d);\n    mod verif_kani {\n        #![allow(unused)]\n'
                            '        use super::*;\n        include!("%s");\n    }\n}\n' % (N, N, os.path.join(KDIR, "moments_n.rs")))
    job.extra_flags += ["--default-unwind", "8"]
    return job
