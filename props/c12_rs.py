"""RS part of C12: with_const_width(start, end) yields edge i = start + i*(end-start)/LEN exactly (real semantics)."""
import terms as tm
from terms import T, UINT, REAL, TRUE, FALSE, And
from prove import Prover
from executor import Crate, Exec

F = "src/histogram.rs"


def load(L):
    cr = Crate()
    cr.load_macro(F, "define_histogram_common", {"LEN": str(L)})
    cr.load_macro(F, "define_histogram_inner", {"name": "h", "LEN": str(L)})
    cr.load_file("src/traits.rs")
    return cr


def run(tier):
    pr = Prover("C12", tier)
    start, end = T.sym("start"), T.sym("end")
    lens = [1, 2, 3, 4] if tier == "quick" else [1, 2, 3, 4, 10, 100]
    for L in lens:
        cr = load(L)
        fname = F + "::define_histogram!(_, %d)::with_const_width" % L
        hyps = [start.lt(end)]
        paths = Exec(cr).run(lambda: ({}, list(hyps)), lambda e, r: e.call("Histogram", "with_const_width", None, [start, end]))
        pre = "hist[%d].with_const_width" % L
        pr.no_panic(pre + ".no_panic", fname, paths)
        pr.sides(pre, fname, paths)
        for p in paths:
            if p.panic:
                continue
            h = p.result
            ok_shape = len(h["range"]) == L + 1 and len(h["bin"]) == L
            pr.holds(pre + ".shape", fname, [], TRUE if ok_shape else FALSE)
            for i in range(L + 1):
                if L <= 10 or i in (0, 1, L // 2, L - 1, L):
                    pr.eq("%s.edge[%d]" % (pre, i), fname, p.pc, h["range"][i], start + T.num(i, REAL) * (end - start) / T.num(L, REAL))
            pr.eq(pre + ".last_is_end", fname, p.pc, h["range"][L], end)
            pr.holds(pre + ".bins_zero", fname, [], TRUE if all(b.is_num() and b.value() == 0 for b in h["bin"]) else FALSE)
            pr.holds(pre + ".edges_increasing", fname, p.pc, And(*[h["range"][i].lt(h["range"][i + 1]) for i in range(min(L, 12))]))
    return pr.obs
