from common import guarded
"""C04  define_moments! estimators of any order equal the exact central moments.  Engine RS + VL."""
from math import comb
import terms as tm
from terms import T, UINT, REAL, TRUE, FALSE, And, Not, Or, real
from prove import Prover
import moments_rs as mr
from moments_rs import n_cases
from executor import Exec, Arr, Opt
import vl
from c01 import A_REAL, A_INT, A_LIB, EXTRACTION
from c03 import A_REALIZABLE

TYPE_MAP = {"Moments4": "Moments4", "Moments5": "M5", "Moments6": "M6", "Moments8": "M8", "Moments10": "M10"}


def binom_exact(pr, cr, N, f):
    """IterBinomial yields C(p, 0..p) exactly and then None, for every p <= N (also: no u64 overflow for these p)."""
    for p in range(0, N + 1):
        def body(e, roots):
            it = e.call("IterBinomial", "new", None, [T.num(p, UINT)])
            vals = []
            for k in range(p + 2):
                vals.append(e.call("IterBinomial", "next", it, []))
            return vals
        paths = Exec(cr).run(lambda: ({}, []), body)
        ok = len(paths) == 1 and not paths[0].panic
        if ok:
            vals = paths[0].result
            ok = all(isinstance(v, Opt) and v.some and v.v.is_num() and v.v.value() == comb(p, k) for k, v in enumerate(vals[:p + 1]))
            ok = ok and isinstance(vals[p + 1], Opt) and not vals[p + 1].some
        pr.holds("Moments%d.IterBinomial.exact[p=%d]" % (N, p), f + "::IterBinomial::{new,next}", [], TRUE if ok else FALSE,
                 cls={"binom": p})


def moments_unit(pr, N, tier):
    cr, name = mr.load_moments_crate(N)
    f = "src/moments/mod.rs::define_moments!(_, %d)" % N
    mk = lambda P, tag="": mr.moments_state(cr, name, N, P, tag)
    mr.check_new(pr, cr, name, mr.read_moments, f)
    mr.check_new(pr, cr, name, mr.read_moments, f, ctor="default")
    mr.check_add(pr, cr, name, N, f + "::%s::add" % name, mk, mr.read_moments,
                 lambda e, st, x: e.call(name, "add", st, [x]), lambda k: k)
    binom_exact(pr, cr, N, f)
    avg = T.sym("avg")
    M = {p: T.sym("M%d" % p) for p in range(2, N + 1)}
    mks = lambda n: cr.mk(name, n=n, avg=avg, m=Arr([M[p] for p in range(2, N + 1)]))
    rz = mr.realizable(M)
    acc = mr.check_accessor
    nsym = T.sym("n", UINT)
    acc(pr, cr, name, f, "len", [("any", nsym, [], ("eq", nsym))], mks)
    acc(pr, cr, name, f, "is_empty", [("any", nsym, [nsym.ge(0)], ("bool", nsym.eq(0)))], mks)
    acc(pr, cr, name, f, "mean", n_cases(1, lambda n: ("eq", avg)), mks)
    for p in range(0, N + 1):
        arg = [T.num(p, UINT)]
        if p == 0:
            cases = n_cases(1, lambda n: ("eq", T.num(1, REAL)), below=("eq", T.num(1, REAL)))
        elif p == 1:
            cases = n_cases(1, lambda n: ("eq", T.num(0, REAL)), below=("eq", T.num(0, REAL)))
        else:
            cases = n_cases(1, lambda n, p=p: ("eq", M[p] / real(n)), extra_hyps=rz)
        acc(pr, cr, name, f, "central_moment", cases, mks, args=arg, label="central_moment(%d)" % p)
        if p == 0:
            cases = n_cases(1, lambda n: ("eq", real(n)), below=("eq", T.num(0, REAL)))
        elif p == 1:
            cases = n_cases(1, lambda n: ("eq", T.num(0, REAL)), below=("eq", T.num(0, REAL)))
        elif p == 2:
            cases = n_cases(1, lambda n: ("eq", T.num(1, REAL)), below=("eq", T.num(1, REAL)))
        else:
            n = nsym
            s2 = M[2] / real(n)
            sig = tm.sqrt(s2)
            cases = [("n=0", T.num(0, UINT), rz, ("nan",)),
                     ("n>=1,M2>0", n, [n.ge(1), n.lt(mr.NMAX), M[2].gt(0)] + rz,
                      ("pred", lambda r, p=p, sig=sig, n=n: (r * sig ** p).eq(M[p] / real(n)))),
                     ("n>=1,M2=0", n, [n.ge(1), n.lt(mr.NMAX), M[2].eq(0)] + rz, ("panics",))]
        acc(pr, cr, name, f, "standardized_moment", cases, mks, args=arg, label="standardized_moment(%d)" % p)


def run(tier, seed):
    pr = Prover("C04", tier)
    orders = [4, 5, 6, 8, 10]   # all orders of the property's quantifier in both tiers (sympy decides order 10 in < 1 s)
    for N in orders:
        moments_unit(pr, N, tier)
    obs = pr.obs
    import envelope
    acc6 = ["mean"] + [["central_moment", p] for p in range(2, 7)] + [["standardized_moment", p] for p in range(3, 7)]
    obs += guarded("C04.engine.envelope.guard_moments@L87", lambda: envelope.guard_moments("C04", "M6", acc6, "define_moments!(_, 6) (add-only histories)"))
    obs += guarded("C04.engine.envelope.guard_moments@L88", lambda: envelope.guard_moments("C04", "Moments4", ["mean"] + [["central_moment", p] for p in range(2, 5)] + [["standardized_moment", p] for p in (3, 4)],
                                  "define_moments!(_, 4) = average::Moments4 (add-only histories)"))
    obs += guarded("C04.engine.vl.run_lemmas@L90", lambda: vl.run_lemmas("C04", ["lemma_fold", "swap", "realizable", "bridge"]))
    # the binomial-coefficient iterator shared by add and merge of every order: extracted and verified by Verus for EVERY n
    import verus_units
    obs += guarded("C04.engine.verus_units.iterbinomial_obligations@L93", lambda: verus_units.iterbinomial_obligations("C04"))
    import rs_crosscheck
    obs += guarded("C04.engine.rs_crosscheck", lambda: rs_crosscheck.crosscheck("C04", ['Moments6']))
    meta = {
        "level": "proof",
        "checker_cmd": "./check C04 (rsx expand define_moments_common! -> RS executor -> sympy / z3 QF_NRA; verus history.rs)",
        "functions_under_contract": ["define_moments!(_, %d): new, default, add, len, is_empty, mean, central_moment(p<=%d), standardized_moment(p<=%d), IterBinomial::{new,next}" % (N, N, N) for N in orders],
        "source_files": ["src/moments/mod.rs"],
        "extraction": EXTRACTION + "; the single arm of define_moments_common! / define_moments_inner! is instantiated by token substitution ($name, $MAX_MOMENT, $crate) and parsed as a file",
        "trusted_base": ["Verus 0.2026.09.13 / z3 on the mechanically extracted IterBinomial (contracts/verus/iterbinomial.rs.tmpl: struct re-printed from the AST; `pub`, `#[inline]`, the `impl Iterator for` header and `type Item` dropped; `-> T` written `-> (r: T)`; a ghost proof block after the opening brace of next; bodies verbatim)", "rsx + RS executor (own code)", "sympy polynomial arithmetic", "z3 5.1 nlsat", "Verus (history lemma)"],
        "assumptions": ["IterBinomial (Verus, all n): next() yields C(n, k) under the precondition that k*C(n,k) fits u64 (true for every order up to 62); machine integers are u64 in the proof, not mathematical",
                        A_REAL, A_INT, A_LIB, A_REALIZABLE, "A-LIB: num_traits::pow(x, k) = repeated product",
                        "configurations: orders N in %s, every p <= N (loops unrolled: bounds are the macro parameter; complete per N); other N are not covered by this run" % orders,
                        "agreement with Mean/Variance/Skewness/Kurtosis: both sides are proved equal to the same textbook terms of the shared summary (C01/C03)",
                        "the forward-error envelope is exercised only by a BOUNDED known-answer corpus (envelope_guard)",
                        "central_moment(p) for p > N panics on the array index (outside the property)"],
        "explanation": "Pebay-style single-observation update proved against M_p of the enlarged summary for p = 2..N; accessors against M_p/n and (M_p/n)/sigma^p; the documented assert_ne!(variance, 0) is the only allowed panic.",
    }
    from confirm_rs import confirm_moment
    import verus_units
    return obs, meta, lambda ob: verus_units.confirm(ob, "C04") or envelope.confirm_from_cex(ob) or confirm_moment(ob, TYPE_MAP)
