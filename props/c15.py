from common import guarded
"""C15  Quantile estimates stay inside the data range and bookkeeping is exact.  Engine RS + K."""
import terms as tm
from terms import T, INT, UINT, REAL, TRUE, FALSE, And, Not, Or, real, ite
from prove import Prover
from executor import Exec, Arr, dcopy
import quantile_rs as qr
import c05
from kani_engine import KaniJob, Harness
from c01 import A_REAL, A_LIB, EXTRACTION

F = qr.F


def extreme_magnitudes_corpus():
    """BOUNDED: the range / not-NaN clauses at magnitudes where exact-real semantics says nothing (subnormals, values
    near f64::MAX, mixed signs), executed on the real crate.  Three obligations: small samples (1..4 observations),
    streams of >= 5 observations whose spread max-min is representable, and streams whose spread overflows."""
    import itertools
    import replay
    from common import Obligation, DISCHARGED, REFUTED, UNDECIDED
    tiny, big = 5e-324, 1.7976931348623157e308
    small_sets = [[tiny, tiny], [tiny, 3 * tiny], [tiny, 2 * tiny, 2 * tiny, 3 * tiny], [-tiny, tiny], [1.5e308, 1.6e308], [big, big], [-big, -1.6e308],
                  [-1.7e308, 1.7e308], [-big, big, -big, big], [1e-310, 2e-310, 3e-310], [0.0, tiny], [-0.0, 0.0], [big], [tiny], [1e308, 1.2e308, 1.4e308, 1.6e308],
                  [2.2250738585072014e-308, 2.225073858507202e-308]]
    ps = [0.0, 0.25, 0.5, 0.75, 1.0, 1.0 / 3.0]
    groups = {"small_samples": [], "streams_representable_spread": [], "streams_overflowing_spread": []}
    for xs in small_sets:
        for perm in set(itertools.permutations(xs)) if len(xs) <= 3 else [tuple(xs), tuple(reversed(xs))]:
            for p in ps:
                groups["small_samples"].append((p, list(perm)))
    reps = [[1e308, 1.2e308, 1.4e308, 1.6e308, 1.7e308, 1.1e308, 1.3e308, 1.5e308, 1.65e308, 1.05e308],
            [-(1e308 + i * 5e306) for i in range(12)], [tiny * k for k in (1, 5, 2, 9, 3, 3, 7, 1, 4, 6, 8, 2)],
            [1e-310 * k for k in (3, 1, 4, 1, 5, 9, 2, 6, 5, 3)], [8e307, -8e307, 4e307, -4e307, 0.0, 1e307, -1e307, 6e307, -6e307]]
    ovs = [[-1.7e308, 1.7e308, -1.6e308, 1.6e308, -1.5e308, 1.5e308, 0.0, 1e308, -1e308],
           [big, -big, big, -big, big, -big, 0.0], [1.2e308, -1.2e308, 1.0, 2.0, 3.0, -1.0, 1.1e308, -1.1e308]]
    for xs in reps:
        for p in (0.5, 0.1, 0.9):
            groups["streams_representable_spread"].append((p, xs))
    for xs in ovs:
        for p in (0.5, 0.1, 0.9):
            groups["streams_overflowing_spread"].append((p, xs))
    out = []
    for gname, cases in groups.items():
        progs = [{"type": "Quantile", "ctor": ["new", p], "ops": [["add", x] for x in xs], "observe": ["quantile", "len"]} for p, xs in cases]
        name = "C15.Quantile.extreme_magnitudes.%s" % gname
        fn = F + "::Quantile::{add,quantile} on the real crate"
        bound = "%d programs (subnormals, values near f64::MAX, mixed signs); quantile() must be a number inside [min, max]" % len(progs)
        results = replay.run_programs(progs, timeout=900)
        verdict = None
        for pg, res, (p, xs) in zip(progs, results, cases):
            if res.get("error"):
                verdict = Obligation(name, fn, "replay+oracle", UNDECIDED, 0.0, "replay failed: " + res["error"], bounded=bound, kind="bounded")
                break
            q = res["obs"].get("quantile")
            lo, hi = min(xs), max(xs)
            if res["panic"] or q is None or q != q or not (lo <= q <= hi) or res["obs"].get("len") != len(xs):
                kind = "nan" if (q is not None and q != q) else "outside_range"
                verdict = Obligation(name, fn, "replay+oracle", REFUTED, 0.0,
                                     "p = %r, stream %s: quantile() = %r, observations span [%r, %r]" % (p, [repr(x) for x in xs][:6], q, lo, hi),
                                     cex={"class": {"group": gname, "kind": kind}, "program": pg, "statistic": "quantile",
                                          "expected": "within [%r, %r]" % (lo, hi), "actual": repr(q)}, bounded=bound, kind="bounded")
                break
        out.append(verdict or Obligation(name, fn, "replay+oracle", DISCHARGED, 0.0, "all estimates are numbers inside the data range", bounded=bound, kind="bounded",
                                         text="range clause at extreme magnitudes"))
    return out


def confirm(ob):
    c = ob.cex or {}
    if c.get("program") and c.get("statistic"):
        return {"program": c["program"], "expected": {c["statistic"]: c.get("expected")}, "actual": {c["statistic"]: c.get("actual")},
                "confirmed_on_real_code": True}
    return c05.confirm(ob)


def run(tier, seed):
    pr = Prover("C15", tier)
    cr = qr.load()
    # marker state well formed after every step (heights ordered, extremes = running min / max, positions
    # strictly increasing, count = n[4], dm never written): the stage contracts of the P-square step
    c05.stage_prologue(pr, cr)
    for i in (1, 2, 3):
        c05.stage_adjust(pr, cr, i)
    c05.init_and_accessors(pr, cr)
    p = T.sym("p")
    # p(), len(), is_empty()
    def any_state():
        st = qr.sym_state(cr)
        return {"self": st}, [st["n"][4].ge(0)]
    for name, want in (("p", lambda st: ("eq", T.sym("dm2"))),):
        paths = Exec(cr).run(any_state, lambda e, r: e.call("Quantile", name, r["self"], []))
        pr.all_paths("Quantile.p.is_dm2", F + "::Quantile::p", [(pp.pc, pp.result.eq(T.sym("dm2"))) for pp in paths if not pp.panic])
    paths = Exec(cr).run(any_state, lambda e, r: e.call("Quantile", "len", r["self"], []))
    pr.no_panic("Quantile.len.no_panic", F + "::Quantile::len", paths)
    pr.sides("Quantile.len", F + "::Quantile::len", paths)
    pr.all_paths("Quantile.len.is_count", F + "::Quantile::len", [(pp.pc, real(pp.result).eq(real(T.sym("n4", INT)))) for pp in paths if not pp.panic])
    paths = Exec(cr).run(any_state, lambda e, r: e.call("Quantile", "is_empty", r["self"], []))
    pr.all_paths("Quantile.is_empty.iff_len0", F + "::Quantile::is_empty",
                 [(pp.pc, Or(And(pp.result, T.sym("n4", INT).eq(0)), And(Not(pp.result), T.sym("n4", INT).ne(0)))) for pp in paths if not pp.panic])
    # quantile(): NaN iff empty; inside [min, max] of the observations otherwise
    fq = F + "::Quantile::quantile"
    def st_count(c):
        st = qr.sym_state(cr, count=T.num(c, INT), p=p)
        for j in range(4):
            st["n"][j] = T.num(j + 1, INT)
        return {"self": st}, [p.ge(0), p.le(1)]
    paths = Exec(cr).run(lambda: st_count(0), lambda e, r: e.call("Quantile", "quantile", r["self"], []))
    pr.holds("Quantile.quantile[empty].is_nan", fq, [], TRUE if all(pp.result == tm.NAN for pp in paths) and paths else FALSE)
    for L in (1, 2, 3, 4):
        paths = Exec(cr).run(lambda: st_count(L), lambda e, r: e.call("Quantile", "quantile", r["self"], []))
        vals = [T.sym("q%d" % i) for i in range(L)]
        lo, hi = vals[0], vals[0]
        for v in vals[1:]:
            lo = ite(v.lt(lo), v, lo)
            hi = ite(v.gt(hi), v, hi)
        live = [pp for pp in paths if not pp.panic]
        pr.no_panic("Quantile.quantile[len=%d].no_panic" % L, fq, paths)
        pr.all_paths("Quantile.quantile[len=%d].in_range_not_nan" % L, fq,
                     [(pp.pc, And(pp.result.ge(lo), pp.result.le(hi)) if not tm.mentions(pp.result) else FALSE) for pp in live])
    def st5():
        st = qr.sym_state(cr)
        return {"self": st}, [st["n"][4].ge(5)] + qr.ordered_heights(st)
    paths = Exec(cr).run(st5, lambda e, r: e.call("Quantile", "quantile", r["self"], []))
    pr.all_paths("Quantile.quantile[count>=5].between_extreme_markers", fq,
                 [(pp.pc, And(pp.result.ge(T.sym("q0")), pp.result.le(T.sym("q4"))) if not tm.mentions(pp.result) else FALSE) for pp in paths if not pp.panic])
    obs = pr.obs
    import vl
    obs += guarded("C15.engine.vl.run_lemmas@L128", lambda: vl.run_lemmas("C15", ["stagewise"]))
    # K: bit-precise parts
    job = KaniJob("C15", timeout=2400 if tier == "thorough" else 600, harness_timeout=2000 if tier == "thorough" else 400)
    job.include_module(F, "quantile.rs")
    job.add(Harness("new_ok_in_unit_interval", "C15.Quantile.new.ok_iff[0<=p<=1]", F + "::Quantile::{new,p,len,is_empty,quantile}"),
            Harness("new_panics_outside", "C15.Quantile.new.panics_iff[p outside or NaN]", F + "::Quantile::new", expect_panic=True))
    if tier == "thorough":
        # float-heavy in CBMC (the RS stage contracts prove both under exact reals in the quick tier)
        # (the bit-precise integer skeleton of add, harness add_positions_step, does not terminate within 2000 s: not registered)
        job.add(Harness("linear_between_f64", "C15.Quantile.linear.between_f64", F + "::Quantile::linear"))
    obs += guarded("C15.engine.job.run@L138", lambda: job.run())
    obs += guarded("C15.engine.extreme_magnitudes_corpus@L139", lambda: extreme_magnitudes_corpus())
    import rs_crosscheck
    obs += guarded("C15.engine.rs_crosscheck", lambda: rs_crosscheck.crosscheck("C15", ['Quantile']))
    meta = {
        "level": "proof",
        "checker_cmd": "./check C15 (rsx -> RS executor -> z3; cargo kani on a scratch copy + contracts/kani/quantile.rs)",
        "functions_under_contract": ["Quantile::{new,p,len,is_empty,quantile,parabolic,linear}", "<Quantile as Estimate>::{add,estimate}"],
        "source_files": [F],
        "extraction": EXTRACTION + "; K: cfg(kani) harness module appended to src/quantile.rs in a scratch copy",
        "trusted_base": ["rsx + RS executor (own code)", "z3 5.1", "Kani 0.68 / CBMC 6.11"],
        "assumptions": [A_REAL + " (RS part: heights ordered, estimate within [min,max]); bit-precise only where K is the engine (new panics iff, integer bookkeeping of add%s)" % (", linear step between neighbours" if tier == "thorough" else ""),
                        A_LIB, "well-formedness is an inductive invariant: established by the fifth observation (fill[count=4]), preserved by the prologue and by each marker adjustment",
                        "streams of finite, non-NaN observations; magnitudes at which f64 arithmetic overflows or underflows are outside exact-real semantics and are exercised only by the BOUNDED corpus extreme_magnitudes.*"],
        "explanation": "running min/max in the extreme markers, ordered heights, strictly increasing positions, exact count and untouched p as stage contracts of add; quantile() inside the range in all phases.",
    }
    return obs, meta, confirm
