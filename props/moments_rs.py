"""RS contracts of the moment family (Mean, Variance, Skewness, Kurtosis, define_moments! types).

rep(s, P) is imposed *by construction*: the symbolic pre-state is the representation of an arbitrary
summary P (n >= 1: avg = S1/n, sum_k = M_k(P); n = 0: sums are 0, avg is unconstrained), so every
obligation is a statement about all reachable states at once.  Post-conditions compare the post-state
with the representation of the enlarged / united summary (DESIGN.md section 4, Appendix E).
"""
from fractions import Fraction

import terms as tm
from terms import T, UINT, REAL, TRUE, And, Not, Or, real
from executor import Crate, Exec, Struct, Arr, Ref
from spec import PowerSums
import spec

FILES = {
    "Mean": "src/moments/mean.rs", "Variance": "src/moments/variance.rs",
    "Skewness": "src/moments/skewness.rs", "Kurtosis": "src/moments/kurtosis.rs",
}
ORDER = {"Mean": 1, "Variance": 2, "Skewness": 3, "Kurtosis": 4}
INNER = {"Kurtosis": "Skewness", "Skewness": "Variance", "Variance": "Mean"}
SUMF = {"Variance": "sum_2", "Skewness": "sum_3", "Kurtosis": "sum_4"}
NMAX = T.num(2 ** 53, UINT)


def load_crate(moment_orders=()):
    cr = Crate()
    for f in ("src/moments/mean.rs", "src/moments/variance.rs", "src/moments/skewness.rs", "src/moments/kurtosis.rs"):
        cr.load_file(f)
    cr.aliases["MeanWithError"] = "Variance"
    return cr


def load_moments_crate(N):
    """The crate's own define_moments! instantiated mechanically for order N."""
    cr = Crate()
    name = "Moments%d" % N
    cr.load_macro("src/moments/mod.rs", "define_moments_common", {"name": name, "MAX_MOMENT": str(N)})
    cr.load_macro("src/moments/mod.rs", "define_moments_inner", {"name": name, "MAX_MOMENT": str(N)})
    return cr, name


# ---- states ----------------------------------------------------------------------------------
def fixed_state(cr, ty, n, avg, sums):
    """sums: dict order -> term."""
    if ty == "Mean":
        return cr.mk("Mean", avg=avg, n=n)
    return cr.mk(ty, **{"avg": fixed_state(cr, INNER[ty], n, avg, sums), SUMF[ty]: sums[ORDER[ty]]})


def rep_state(cr, ty, P, tag):
    """Representation of summary P; for the empty summary avg is a free symbol."""
    if P is None:
        return fixed_state(cr, ty, T.num(0, UINT), T.sym("avg0" + tag), {k: T.num(0, REAL) for k in (2, 3, 4)})
    return fixed_state(cr, ty, P.n, P.mean(), {k: P.M(k) for k in range(2, ORDER[ty] + 1)})


def read_state(st):
    out = {}
    s = st
    while s.ty != "Mean":
        out[SUMF[s.ty]] = s[SUMF[s.ty]]
        s = s["avg"]
    out["n"] = s["n"]
    out["avg"] = s["avg"]
    return out


def moments_state(cr, name, N, P, tag):
    if P is None:
        return cr.mk(name, n=T.num(0, UINT), avg=T.sym("avg0" + tag), m=Arr([T.num(0, REAL) for _ in range(N - 1)]))
    return cr.mk(name, n=P.n, avg=P.mean(), m=Arr([P.M(p) for p in range(2, N + 1)]))


def read_moments(st):
    out = {"n": st["n"], "avg": st["avg"]}
    for i, v in enumerate(st["m"]):
        out["m%d" % (i + 2)] = v
    return out


def expected(P, order, reader_keys):
    e = {"n": P.n, "avg": P.mean()}
    for k in range(2, order + 1):
        e["sum_%d" % k] = P.M(k)
        e["m%d" % k] = P.M(k)
    return e


# ---- add ----------------------------------------------------------------------------------------
def check_add(pr, cr, ty, order, fname, mk_state, reader, add_call, keyfmt):
    """add.rep_* for the cases n = 0 and n >= 1."""
    x = T.sym("x")
    for case in ("n=0", "n>=1"):
        if case == "n=0":
            P, hyps = None, []
            Ppost = PowerSums.empty(order).push(x)
        else:
            P = PowerSums.symbolic("", order)
            hyps = [P.n.ge(1), P.n.lt(NMAX)]
            Ppost = P.push(x)

        def build():
            st = mk_state(P)
            return {"self": st}, list(hyps)

        ex = Exec(cr)
        paths = ex.run(build, lambda e, roots: add_call(e, roots["self"], x))
        pre = "%s.add[%s]" % (ty, case)
        pr.feasible(pre + ".hyps_sat", fname, hyps)
        pr.no_panic(pre + ".no_panic", fname, paths)
        pr.sides(pre, fname, paths)
        live = [p for p in paths if not p.panic]
        if not live:
            pr.holds(pre + ".paths", fname, [], tm.FALSE)
            continue
        for pi, p in enumerate(live):
            got = reader(p.state["self"])
            want = expected(Ppost, order, got.keys())
            sfx = "" if len(live) == 1 else ".path%d" % pi
            for k in sorted(got):
                pr.eq("%s.rep_%s%s" % (pre, keyfmt(k), sfx), fname, p.pc, got[k] if k != "n" else real(got[k]),
                      want[k] if k != "n" else real(want[k]), cls={"case": case, "field": k})


# ---- merge --------------------------------------------------------------------------------------
def states_equal(a, b):
    """Field-wise equality of two states of the same type (structural, else rational normal form)."""
    import backends
    ra, rb = read_state(a), read_state(b)
    return all(ra[k] == rb[k] or backends.sympy_equal(real(ra[k]), real(rb[k])) for k in ra)


def merge_contract(cr, inner, candidates, used):
    """Contract of <inner as Merge>::merge as proved by its own obligations: requires rep(self, Pa), rep(other, Pb)
    (both non-empty here); ensures rep(self, Pa + Pb) and other unchanged.  candidates: list of (Pa, Pb)."""
    def handler(ex, recv, args):
        other = args[0]
        other = ex.deref(other) if isinstance(other, Ref) else other
        for Pa, Pb in candidates:
            if states_equal(recv, rep_state(cr, inner, Pa, "a")) and states_equal(other, rep_state(cr, inner, Pb, "b")):
                post = rep_state(cr, inner, Pa.plus(Pb), "")
                recv.clear()
                recv.update(post)
                used.append("<%s as Merge>::merge" % inner)
                return ()
        ex.oblige("callee_requires", tm.FALSE, None, "requires of <%s as Merge>::merge (receiver and argument represent summaries)" % inner)
        return ()
    return handler


def check_merge_modular(pr, cr, ty, order, fname):
    """<ty as Merge>::merge, both operands non-empty, with the nested merge of the embedded estimator replaced by that
    estimator's CONTRACT instead of its body: the caller is checked against the callee's contract."""
    inner = INNER[ty]
    Pa, Pb = PowerSums.symbolic("a", order), PowerSums.symbolic("b", order)
    hyps = [Pa.n.ge(1), Pa.n.lt(NMAX), Pb.n.ge(1), Pb.n.lt(NMAX)]
    Pu = Pa.plus(Pb)
    used = []
    ex = Exec(cr)
    ex.contracts = {(inner, "merge"): merge_contract(cr, inner, [(Pa, Pb)], used)}
    paths = ex.run(lambda: ({"self": rep_state(cr, ty, Pa, "a"), "other": rep_state(cr, ty, Pb, "b")}, list(hyps)),
                   lambda e, r: e.call(ty, "merge", r["self"], [Ref(r["other"])]))
    pre = "%s.merge[both].via_contract_of_%s_merge" % (ty, inner)
    pr.no_panic(pre + ".no_panic", fname, paths)
    pr.sides(pre, fname, paths)
    pr.holds(pre + ".callee_contract_applied", fname, [], TRUE if used else tm.FALSE)
    for p in paths:
        if p.panic:
            continue
        got = read_state(p.state["self"])
        want = expected(Pu, order, got.keys())
        for k in sorted(got):
            pr.eq("%s.rep_%s" % (pre, keyfmt_std(k)), fname, p.pc, real(got[k]), real(want[k]), cls={"case": "both", "field": k, "modular": True})


def check_merge(pr, cr, ty, order, fname, mk_state, reader, merge_call, keyfmt):
    cases = [("both", True, True), ("b_empty", True, False), ("a_empty", False, True), ("both_empty", False, False)]
    for cname, a_ne, b_ne in cases:
        Pa = PowerSums.symbolic("a", order) if a_ne else None
        Pb = PowerSums.symbolic("b", order) if b_ne else None
        hyps = []
        if a_ne:
            hyps += [Pa.n.ge(1), Pa.n.lt(NMAX)]
        if b_ne:
            hyps += [Pb.n.ge(1), Pb.n.lt(NMAX)]
        Pu = (Pa or PowerSums.empty(order)).plus(Pb or PowerSums.empty(order))

        def build():
            return {"self": mk_state(Pa, "a"), "other": mk_state(Pb, "b")}, list(hyps)

        ex = Exec(cr)
        paths = ex.run(build, lambda e, roots: merge_call(e, roots["self"], roots["other"]))
        pre = "%s.merge[%s]" % (ty, cname)
        pr.feasible(pre + ".hyps_sat", fname, hyps)
        pr.no_panic(pre + ".no_panic", fname, paths)
        pr.sides(pre, fname, paths)
        live = [p for p in paths if not p.panic]
        for pi, p in enumerate(live):
            got = reader(p.state["self"])
            sfx = "" if len(live) == 1 else ".path%d" % pi
            # len adds exactly (integers)
            pr.eq("%s.len%s" % (pre, sfx), fname, p.pc, real(got["n"]), real(Pu.n), cls={"case": cname, "field": "n"})
            if not a_ne and not b_ne:
                # nothing is observable of an empty estimator except len; sums must stay 0
                for k in sorted(got):
                    if k not in ("n", "avg"):
                        pr.eq("%s.rep_%s%s" % (pre, keyfmt(k), sfx), fname, p.pc, got[k], T.num(0, REAL),
                              cls={"case": cname, "field": k})
            else:
                want = expected(Pu, order, got.keys())
                for k in sorted(got):
                    if k == "n":
                        continue
                    pr.eq("%s.rep_%s%s" % (pre, keyfmt(k), sfx), fname, p.pc, got[k], want[k],
                          cls={"case": cname, "field": k})
            # frame: the argument is not modified
            o_before = reader(mk_state(Pb, "b"))
            o_after = reader(p.state["other"])
            same = all(o_before[k] == o_after[k] for k in o_before)
            pr.holds("%s.frame_other%s" % (pre, sfx), fname, [], TRUE if same else tm.FALSE, cls={"case": cname})


def std_calls(ty):
    def add_call(e, st, x):
        return e.call(ty, "add", st, [x])

    def merge_call(e, st, other):
        return e.call(ty, "merge", st, [Ref(other)])
    return add_call, merge_call


def keyfmt_std(k):
    return {"n": "n", "avg": "avg", "sum_2": "sum2", "sum_3": "sum3", "sum_4": "sum4"}.get(k, k)


def check_new(pr, cr, ty, reader, fname, ctor="new"):
    ex = Exec(cr)
    paths = ex.run(lambda: ({}, []), lambda e, roots: e.call(ty, ctor, None, []))
    for p in paths:
        if p.panic:
            pr.holds("%s.%s.no_panic" % (ty, ctor), fname, [], tm.FALSE)
            continue
        got = reader(p.result)
        for k in sorted(got):
            if k == "avg":
                continue   # unobservable while n = 0; rep places no constraint on it
            pr.eq("%s.%s.rep_%s" % (ty, ctor, keyfmt_std(k)), fname, p.pc, real(got[k]), T.num(0, REAL))


# ---- accessors ------------------------------------------------------------------------------------
def realizable(M):
    """Facts true of central sums of real multisets (DESIGN.md 4.2; A-REALIZABLE for the non-inductive two)."""
    hy = [M[2].ge(0)]
    if 3 in M:
        hy.append(Or(M[2].ne(0), M[3].eq(0)))
    if 4 in M:
        hy.append(Or(M[2].ne(0), M[4].eq(0)))
        hy.append(Or(M[2].le(0), M[4].gt(0)))
    return hy


def accessor_paths(cr, ty, name, st, hyps, args=()):
    ex = Exec(cr)
    return ex.run(lambda: ({"self": st()}, list(hyps)), lambda e, roots: e.call(ty, name, roots["self"], list(args)))


def check_accessor(pr, cr, ty, fname, name, cases, mk, args=(), label=None):
    """cases: list of (case name, n term, hyps, spec) where spec is
         ("nan",) | ("eq", term) | ("root", term)  [result >= 0 and result^2 == term] | ("pred", fn(result)->B)
       mk(n) builds the state with free symbols for the sums."""
    label = label or name
    for (cname, n, hyps, sp) in cases:
        paths = accessor_paths(cr, ty, name, lambda: mk(n), hyps, args)
        pre = "%s.%s[%s]" % (ty, label, cname)
        pr.feasible(pre + ".hyps_sat", fname, hyps)
        allowed = (lambda p: True) if sp[0] == "panics" else (lambda p: False)
        pr.no_panic(pre + ".no_panic", fname, paths, allowed)
        pr.sides(pre, fname, paths)
        live = [p for p in paths if not p.panic]
        if sp[0] == "panics":
            for p in live:
                pr.holds(pre + ".must_panic", fname, p.pc, tm.FALSE, cls={"case": cname})
            if not live:
                pr.holds(pre + ".must_panic", fname, [], TRUE)
            continue
        for pi, p in enumerate(live):
            sfx = "" if len(live) == 1 else ".path%d" % pi
            r = p.result
            cls = {"case": cname, "accessor": name}
            if sp[0] == "nan":
                pr.eq(pre + ".is_nan" + sfx, fname, p.pc, r, tm.NAN, cls=cls)
            elif tm.mentions(r):
                pr.eq(pre + ".value" + sfx, fname, p.pc, r, sp[1] if len(sp) > 1 and isinstance(sp[1], T) else T.sym("defined"), cls=cls)
            elif sp[0] == "eq":
                pr.eq(pre + ".value" + sfx, fname, p.pc, r, sp[1], cls=cls)
            elif sp[0] == "root":
                pr.holds(pre + ".value" + sfx, fname, p.pc, And(r.ge(0), (r * r).eq(sp[1])), cls=cls)
            elif sp[0] == "pred":
                pr.holds(pre + ".value" + sfx, fname, p.pc, sp[1](r), cls=cls)
            elif sp[0] == "bool":
                # r is a formula: must be equivalent to sp[1] under the path condition
                pr.holds(pre + ".value" + sfx, fname, p.pc, Or(And(r, sp[1]), And(Not(r), Not(sp[1]))), cls=cls)


def n_cases(minimum, spec_defined, below=("nan",), extra_hyps=()):
    """Case split on the count: concrete values below `minimum`, symbolic n >= minimum above."""
    out = []
    for k in range(0, minimum):
        out.append(("n=%d" % k, T.num(k, UINT), list(extra_hyps), below if not callable(below) else below(k)))
    n = T.sym("n", UINT)
    out.append(("n>=%d" % minimum, n, [n.ge(minimum), n.lt(NMAX)] + list(extra_hyps), spec_defined(n)))
    return out
