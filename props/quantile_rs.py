"""RS contracts of src/quantile.rs shared by C05 (P-square step), C07 (small samples), C15 (range, bookkeeping)."""
import terms as tm
from terms import T, INT, UINT, REAL, TRUE, FALSE, And, Not, Or, real, ite
from executor import Crate, Exec, Arr, Struct, dcopy
from common import Undecided

F = "src/quantile.rs"
ZERO = T.num(0, REAL)


def load():
    cr = Crate()
    cr.load_file(F)
    return cr


def sym_state(cr, tag="", count=None, p=None):
    """Fully symbolic marker state."""
    q = Arr([T.sym("q%d%s" % (i, tag)) for i in range(5)])
    n = Arr([T.sym("n%d%s" % (i, tag), INT, strict=True) for i in range(5)])
    if count is not None:
        n[4] = count
    m = Arr([T.sym("m%d%s" % (i, tag)) for i in range(5)])
    dm = Arr([T.sym("dm%d%s" % (i, tag)) for i in range(5)])
    if p is not None:
        dm[2] = p
    return cr.mk("Quantile", q=q, n=n, m=m, dm=dm)


def increasing_positions(st):
    return [st["n"][i].lt(st["n"][i + 1]) for i in range(4)]


def ordered_heights(st):
    return [st["q"][i].le(st["q"][i + 1]) for i in range(4)]


def add_body(cr):
    fn, _ = cr.fn("Quantile", "add")
    stmts = fn["body"]["stmts"]
    fors = [i for i, s in enumerate(stmts) if s["k"] == "expr" and s["e"]["k"] == "for"]
    # anchor: the marker adjustment is the LAST top-level statement and is a `for` loop (its range 1..4 is checked by
    # stage_adjust); how the earlier statements are written (for / while / unrolled) does not matter
    if not fors or fors[-1] != len(stmts) - 1:
        raise Undecided("lost anchor: Quantile::add is expected to end with the marker-adjustment `for` loop")
    return fn, stmts, fors


# ---- clean-room P-square step (Jain & Chlamtac 1985, boxes B1-B3), 0-based arrays ----------------
def ref_prologue(ex, q, n, m, dm, x):
    """B1 (cell search, extreme markers) and B2 (positions of markers above the cell, desired positions).
    Branches are resolved through the executor's decision mechanism (forks when undecided)."""
    q, n, m = list(q), list(n), list(m)
    if ex.decide(x.lt(q[0])):
        q[0] = x
        k = 1
    elif ex.decide(x.lt(q[1])):
        k = 1
    elif ex.decide(x.lt(q[2])):
        k = 2
    elif ex.decide(x.lt(q[3])):
        k = 3
    elif ex.decide(x.le(q[4])):
        k = 4
    else:
        q[4] = x
        k = 4
    for i in range(k, 5):          # paper: n_i += 1 for i = k+1..5 (1-based)
        n[i] = n[i] + 1
    for i in range(5):
        m[i] = m[i] + dm[i]
    return q, n, m


def ref_adjust(ex, q, n, m, i):
    """B3 for marker i (0-based 1..3)."""
    q, n = list(q), list(n)
    d = m[i] - real(n[i])
    up = ex.decide(And(d.ge(1), (n[i + 1] - n[i]).gt(1)))
    down = False if up else ex.decide(And(d.le(-1), (n[i - 1] - n[i]).lt(-1)))
    if not (up or down):
        return q, n
    s = 1 if up else -1
    r = lambda t: real(t)
    par = q[i] + T.num(s, REAL) / r(n[i + 1] - n[i - 1]) * (
        r(n[i] - n[i - 1] + s) * (q[i + 1] - q[i]) / r(n[i + 1] - n[i])
        + r(n[i + 1] - n[i] - s) * (q[i] - q[i - 1]) / r(n[i] - n[i - 1]))
    if ex.decide(And(q[i - 1].lt(par), par.lt(q[i + 1]))):
        q[i] = par
    else:
        j = i + s
        q[i] = q[i] + T.num(s, REAL) * (q[j] - q[i]) / r(n[j] - n[i])
    n[i] = n[i] + s
    return q, n
