"""C11  The empty estimator is an exact identity of merge and lengths add exactly.  Engine K (+VL)."""
import kjobs
from hist_common import hist_job
import vl

HIST = [("merge_empty_identity", "merge.empty_identity", "<Histogram as Merge>::merge"),
        ("merge_and_add_assign_binwise", "merge.binwise_total_adds", "<Histogram as Merge>::merge")]


def run(tier, seed):
    # len_adds of the higher-order types drags the whole float merge through CBMC (Kurtosis 170 s, Moments6 400 s):
    # thorough tier only; in the quick tier their `merge.len` is C02's integer obligation (RS).
    slow = ("kurtosis_len_adds", "vm4::verif_kani::mn_len_adds", "vm6::verif_kani::mn_len_adds")
    job = kjobs.job_for("C11", tier, exclude=slow if tier == "quick" else (), timeout=2400, harness_timeout=1500)
    # Min / Max: identity of merge with new() on the full f64 domain under is_valid (x not NaN)
    job.include_module(kjobs.MM, "minmax_c11.rs")
    from kani_engine import Harness
    job.add(Harness("minmax_merge_empty_identity", "C11.MinMax.merge_empty_identity", "<Min as Merge>::merge, <Max as Merge>::merge"))
    obs = job.run()
    obs += hist_job("C11", [1, 3], HIST, unwind=12, timeout=900, harness_timeout=400).run()
    obs += vl.run_lemmas("C11", ["merge_tree", "lemma_fold"])
    meta = {
        "level": "proof",
        "checker_cmd": "cargo kani --no-default-features --features std (scratch copy + contracts/kani/{moments,covariance,weighted,moments_n,minmax_c11,histogram}.rs)",
        "functions_under_contract": sorted({r["func"] for r in kjobs.REG.values() if "C11" in r["props"]}) + ["<Min as Merge>::merge", "<Max as Merge>::merge", "<Histogram as Merge>::merge (LEN 1, 3)"],
        "source_files": ["src/moments/mean.rs", "src/moments/variance.rs", "src/moments/skewness.rs", "src/moments/kurtosis.rs", "src/moments/mod.rs",
                         "src/minmax.rs", "src/weighted_mean.rs", "src/covariance.rs", "src/histogram.rs"],
        "extraction": "none: Kani compiles the crate; cfg(kani) harness modules appended to the defining modules of a scratch copy; define_moments! instantiated for N = 4, 6 inside cfg(kani) modules",
        "trusted_base": ["Kani 0.68 / CBMC 6.11", "rustc (&Self argument is immutable)", "Verus (history lemma)"],
        "assumptions": [
            "states are arbitrary symbolic values under the type's is_valid() predicate (n < 2^53; sum_2 / m[0] / sum_x_2 / sum_y_2 not < 0; weight sums +0.0 or positive; Min/Max not NaN) which over-approximates the reachable states; is_valid is proved inductive in C17 (sums) and here (weights)",
            "'every reported statistic bit-for-bit' is decided on the observable part of the state: the count always, every other field bit-for-bit whenever some accessor can read it; accessors are deterministic functions of the fields (&self, no interior mutability, no globals)",
            "configurations: define_moments! N in {4, 6}; histograms LEN in {1, 3}; total bin count adds because merge is the bin-wise sum (C13)",
            "A-CBMC; A-RUSTC"],
        "explanation": "loop-free harnesses over fully symbolic states: complete proofs of merge_empty_right, merge_empty_left, len_adds, is_empty_iff_len0 and the frame of the argument per type.",
    }
    return obs, meta, None
