from common import guarded
"""C11  The empty estimator is an exact identity of merge and lengths add exactly.  Engine K (+VL)."""
import kjobs
from hist_common import hist_job
import vl

HIST = [("merge_empty_identity", "merge.empty_identity", "<Histogram as Merge>::merge"),
        ("merge_and_add_assign_binwise", "merge.binwise_total_adds", "<Histogram as Merge>::merge")]


def copy_exact_rs(tier):
    """Bit-for-bit identity as a structural fact: when one side is empty, merge must leave / copy the
    observable fields WITHOUT applying any arithmetic to them (term identity of the symbolic post-state).
    A non-identical term is not yet a violation (it may still round to the same bits), so it is reported
    as refuted only if a replay on the real crate shows a differing bit pattern, otherwise as undecided."""
    import terms as tm
    from terms import T, UINT, REAL
    from common import Obligation, DISCHARGED, REFUTED, UNDECIDED
    from executor import Exec, Ref
    import moments_rs as mr
    from spec import PowerSums
    obs = []
    cr = mr.load_crate()
    for ty in ("Mean", "Variance", "Skewness", "Kurtosis"):
        f = mr.FILES[ty] + "::<%s as Merge>::merge" % ty
        n = T.sym("n", UINT)
        sums = {2: T.sym("M2"), 3: T.sym("M3"), 4: T.sym("M4")}
        full = lambda tag="": mr.fixed_state(cr, ty, n, T.sym("avg"), sums)
        empty = lambda tag="": mr.fixed_state(cr, ty, T.num(0, UINT), T.sym("avg0" + tag), {k: T.num(0, REAL) for k in (2, 3, 4)})
        for case, mk_self, mk_other, src in (("empty_left", empty, full, "other"), ("empty_right", full, empty, "self")):
            paths = Exec(cr).run(lambda: ({"self": mk_self("s"), "other": mk_other("o")}, [n.ge(1), n.lt(mr.NMAX)]),
                                 lambda e, r: e.call(ty, "merge", r["self"], [Ref(r["other"])]))
            want = mr.read_state(full())
            ok = bool(paths) and all((not p.panic) and all(mr.read_state(p.state["self"])[k] == want[k] for k in want) for p in paths)
            name = "C11.%s.merge_%s.pure_copy_no_arithmetic" % (ty, case)
            if ok:
                obs.append(Obligation(name, f, "rs-executor", DISCHARGED, 0.0, "post-state fields are the very terms of the non-empty operand",
                                      text="term identity of every field after merge with an empty estimator"))
            else:
                got = [tm.show(mr.read_state(p.state["self"])["avg"])[:80] for p in paths if not p.panic][:1]
                ex = _bit_replay(ty)
                obs.append(Obligation(name, f, "rs-executor+replay", REFUTED if ex else UNDECIDED, 0.0,
                                      "merge applies arithmetic to the copied state (avg = %s)%s" % (got, "" if ex else "; no differing bit pattern found by replay"),
                                      cex={"class": {"case": case}, "replay": ex}))
    obs += copy_exact_other_types()
    return obs


def copy_exact_other_types():
    """The same structural obligation for Covariance, define_moments! (N = 4, 6), WeightedMean and WeightedMeanWithError."""
    import terms as tm
    from terms import T, UINT, REAL
    from common import Obligation, DISCHARGED, UNDECIDED, REFUTED
    from executor import Crate, Exec, Ref, Arr, Struct
    import moments_rs as mr
    import c08
    obs = []
    n = T.sym("n", UINT)
    Z = T.num(0, REAL)

    def flat(st, out=None, pre=""):
        out = {} if out is None else out
        for k, v in st.items():
            if isinstance(v, Struct):
                flat(v, out, pre + k + ".")
            elif isinstance(v, Arr):
                for i, x in enumerate(v):
                    out["%s%s[%d]" % (pre, k, i)] = x
            else:
                out[pre + k] = v
        return out

    units = []
    crc = Crate()
    crc.load_file("src/covariance.rs")
    units.append(("Covariance", crc, "src/covariance.rs::<Covariance as Merge>::merge",
                  lambda: crc.mk("Covariance", avg_x=T.sym("ax"), sum_x_2=T.sym("cxx"), avg_y=T.sym("ay"), sum_y_2=T.sym("cyy"), sum_prod=T.sym("cxy"), n=n),
                  lambda: crc.mk("Covariance", avg_x=T.sym("ax0"), sum_x_2=Z, avg_y=T.sym("ay0"), sum_y_2=Z, sum_prod=Z, n=T.num(0, UINT)),
                  [n.ge(1), n.lt(mr.NMAX)], lambda k: k not in ()))
    for N in (4, 6):
        crm, name = mr.load_moments_crate(N)
        units.append((name, crm, "src/moments/mod.rs::define_moments!(_, %d)::merge" % N,
                      (lambda crm=crm, name=name, N=N: crm.mk(name, n=n, avg=T.sym("avg"), m=Arr([T.sym("m%d" % p) for p in range(2, N + 1)]))),
                      (lambda crm=crm, name=name, N=N: crm.mk(name, n=T.num(0, UINT), avg=T.sym("avg0"), m=Arr([Z for _ in range(2, N + 1)]))),
                      [n.ge(1), n.lt(mr.NMAX)], lambda k: True))
    crw = c08.load()
    W = T.sym("W")
    units.append(("WeightedMean", crw, c08.F + "::<WeightedMean as Merge>::merge",
                  lambda: crw.mk("WeightedMean", weight_sum=W, weighted_avg=T.sym("wavg")),
                  lambda: crw.mk("WeightedMean", weight_sum=Z, weighted_avg=T.sym("wavg0")),
                  [W.gt(0)], lambda k: True))
    for (ty, cr, f, full, empty, hyps, keep) in units:
        for case, mk_self, mk_other in (("empty_left", empty, full), ("empty_right", full, empty)):
            paths = Exec(cr).run(lambda: ({"self": mk_self(), "other": mk_other()}, list(hyps)),
                                 lambda e, r: e.call(ty, "merge", r["self"], [Ref(r["other"])]))
            want = flat(full())
            ok = bool(paths) and all((not p.panic) and all(flat(p.state["self"])[k] == want[k] for k in want) for p in paths)
            name = "C11.%s.merge_%s.pure_copy_no_arithmetic" % (ty, case)
            if ok:
                obs.append(Obligation(name, f, "rs-executor", DISCHARGED, 0.0, "post-state fields are the very terms of the non-empty operand",
                                      text="term identity of every field after merge with an empty estimator"))
            else:
                diff = []
                for p in paths:
                    if not p.panic:
                        got = flat(p.state["self"])
                        diff = ["%s = %s" % (k, tm.show(got[k])[:60]) for k in want if got[k] != want[k]][:2]
                ex = _bit_replay_other(ty)
                obs.append(Obligation(name, f, "rs-executor+replay", REFUTED if ex else UNDECIDED, 0.0,
                                      "merge applies arithmetic to the surviving state (%s)%s" % ("; ".join(diff), "" if ex else ": bit-for-bit identity is not established; no differing bit pattern found by replay"),
                                      cex={"class": {"case": case}, "replay": ex}))
    return obs


def _bit_replay_other(ty):
    import replay
    pair = ty in ("Covariance", "WeightedMean", "WeightedMeanWithError")
    rty = {"Moments4": "Moments4", "Moments6": "M6"}.get(ty, ty)
    acc = {"Covariance": ["mean_x", "mean_y", "population_variance_x", "population_variance_y", "population_covariance"],
           "WeightedMean": ["mean", "sum_weights"], "Moments4": ["mean", ["central_moment", 2], ["central_moment", 3], ["central_moment", 4]],
           "Moments6": ["mean", ["central_moment", 2], ["central_moment", 5], ["central_moment", 6]]}.get(ty)
    if acc is None:
        return None
    seqs = [[0.1, 0.1, 0.1], [0.1, 0.2, 0.4], [0.3, 0.7, 0.11, 0.13, 0.9], [1e308, 1e308]]
    progs = []
    for xs in seqs:
        ops = [["add2", x, 0.3 + 0.1 * i] for i, x in enumerate(xs)] if pair else [["add", x] for x in xs]
        progs.append({"type": rty, "ctor": ["new"], "ops": ops, "observe": acc})
        progs.append({"type": rty, "ctor": ["new"], "ops": [["merge", {"type": rty, "ctor": ["new"], "ops": ops}]], "observe": acc})
        progs.append({"type": rty, "ctor": ["new"], "ops": ops + [["merge", {"type": rty, "ctor": ["new"], "ops": []}]], "observe": acc})
    res = replay.run_programs(progs)
    key = lambda a: a if isinstance(a, str) else "%s(%s)" % (a[0], a[1])
    for i in range(0, len(progs), 3):
        base = res[i]["obs"]
        for j in (1, 2):
            for a in acc:
                k = key(a)
                u, v = base.get(k), res[i + j]["obs"].get(k)
                if u is None or v is None:
                    continue
                if replay.bits(u) != replay.bits(v) and not (u != u and v != v):
                    return {"program": progs[i + j], "statistic": k, "expected_bits_of": repr(u), "actual": repr(v)}
    return None


def _bit_replay(ty):
    """Short histories merged into / with an empty estimator on the real crate: any statistic whose bits differ."""
    import replay
    acc = {"Mean": ["mean"], "Variance": ["mean", "population_variance"], "Skewness": ["mean", "population_variance", "skewness"],
           "Kurtosis": ["mean", "population_variance", "skewness", "kurtosis"]}[ty]
    seqs = [[0.1, 0.1, 0.1], [0.1, 0.2, 0.4], [1e308, 1e308], [0.3, 0.7, 0.11, 0.13, 0.9], [1.0, 2.0, 4.0]]
    progs = []
    for xs in seqs:
        adds = [["add", x] for x in xs]
        progs.append({"type": ty, "ctor": ["new"], "ops": adds, "observe": acc})
        progs.append({"type": ty, "ctor": ["new"], "ops": [["merge", {"type": ty, "ctor": ["new"], "ops": adds}]], "observe": acc})
        progs.append({"type": ty, "ctor": ["new"], "ops": adds + [["merge", {"type": ty, "ctor": ["new"], "ops": []}]], "observe": acc})
    res = replay.run_programs(progs)
    for i in range(0, len(progs), 3):
        base = res[i]["obs"]
        for j in (1, 2):
            for k in acc:
                a, b = base.get(k), res[i + j]["obs"].get(k)
                if a is None or b is None:
                    continue
                if replay.bits(a) != replay.bits(b) and not (a != a and b != b):
                    return {"program": progs[i + j], "statistic": k, "expected_bits_of": repr(a), "actual": repr(b)}
    return None


def confirm(ob):
    r = (ob.cex or {}).get("replay")
    if r:
        return {"program": r["program"], "expected": {r["statistic"]: r["expected_bits_of"]}, "actual": {r["statistic"]: r["actual"]},
                "confirmed_on_real_code": True}
    return None


def run(tier, seed):
    # len_adds of the higher-order types drags the whole float merge through CBMC (Kurtosis 170 s, Moments6 400 s):
    # thorough tier only; in the quick tier their `merge.len` is C02's integer obligation (RS).
    slow = ("kurtosis_len_adds", "vm4::verif_kani::mn_len_adds", "vm6::verif_kani::mn_len_adds")
    job = kjobs.job_for("C11", tier, exclude=slow if tier == "quick" else (), timeout=2400, harness_timeout=300 if tier == "quick" else 1500)
    # Min / Max: identity of merge with new() on the full f64 domain under is_valid (x not NaN)
    job.include_module(kjobs.MM, "minmax_c11.rs")
    from kani_engine import Harness
    job.add(Harness("minmax_merge_empty_identity", "C11.MinMax.merge_empty_identity", "<Min as Merge>::merge, <Max as Merge>::merge"))
    obs = guarded("C11.engine.job.run@L187", lambda: job.run())
    obs += guarded("C11.engine.hist_job@L188", lambda: hist_job("C11", [1, 3], HIST, unwind=12, timeout=900, harness_timeout=400).run())
    obs += guarded("C11.engine.copy_exact_rs@L189", lambda: copy_exact_rs(tier))
    obs += guarded("C11.engine.vl.run_lemmas@L190", lambda: vl.run_lemmas("C11", ["merge_tree", "lemma_fold"]))
    meta = {
        "level": "proof",
        "checker_cmd": "cargo kani --no-default-features --features std (scratch copy + contracts/kani/{moments,covariance,weighted,moments_n,minmax_c11,histogram}.rs)",
        "functions_under_contract": sorted({r["func"] for r in kjobs.REG.values() if "C11" in r["props"]}) + ["<Min as Merge>::merge", "<Max as Merge>::merge", "<Histogram as Merge>::merge (LEN 1, 3)"],
        "source_files": ["src/moments/mean.rs", "src/moments/variance.rs", "src/moments/skewness.rs", "src/moments/kurtosis.rs", "src/moments/mod.rs",
                         "src/minmax.rs", "src/weighted_mean.rs", "src/covariance.rs", "src/histogram.rs"],
        "extraction": "none: Kani compiles the crate; cfg(kani) harness modules appended to the defining modules of a scratch copy; define_moments! instantiated for N = 4, 6 inside cfg(kani) modules",
        "trusted_base": ["Kani 0.68 / CBMC 6.11", "rustc (&Self argument is immutable)", "Verus (history lemma)"],
        "assumptions": [
            "states are arbitrary symbolic values under the type's is_valid() predicate (n < 2^53; sum_2 / m[0] / sum_x_2 / sum_y_2 not < 0; weight sums +0.0 or positive; Min/Max not NaN) which over-approximates the reachable states; is_valid is proved inductive in C17 (sums) and here (weights)",
            "'every reported statistic bit-for-bit' is decided on the observable part of the state: the count always, every other field bit-for-bit whenever some accessor can read it; accessors are deterministic functions of the fields (&self, no interior mutability, no globals)",
            "configurations: define_moments! N in {4, 6}; histograms LEN in {1, 3}; total bin count adds because merge is the bin-wise sum (C13)",
            "moment family additionally: pure_copy_no_arithmetic (RS term identity) - merging with an empty estimator applies no float operation to the surviving state",
            "A-CBMC; A-RUSTC"],
        "explanation": "loop-free harnesses over fully symbolic states: complete proofs of merge_empty_right, merge_empty_left, len_adds, is_empty_iff_len0 and the frame of the argument per type.",
    }
    return obs, meta, confirm
