from common import guarded
"""C08  Weighted mean and its error equal the exact weighted statistics.  Engine RS + VL."""
import terms as tm
from terms import T, UINT, REAL, TRUE, FALSE, And, Not, Or, real
from prove import Prover
from executor import Crate, Exec, Ref
import moments_rs as mr
from moments_rs import n_cases, NMAX
from spec import PowerSums
import vl
from c01 import A_REAL, A_INT, A_LIB, EXTRACTION

F = "src/weighted_mean.rs"
ZERO = T.num(0, REAL)


def load():
    cr = Crate()
    for f in ("src/moments/mean.rs", "src/moments/variance.rs", F):
        cr.load_file(f)
    cr.aliases["MeanWithError"] = "Variance"
    return cr


class WSum:
    """(W, WX): sum of weights, sum of weight*sample; W2: sum of squared weights."""
    def __init__(self, W, WX, W2):
        self.W, self.WX, self.W2 = W, WX, W2

    @staticmethod
    def symbolic(tag):
        return WSum(T.sym("W" + tag), T.sym("WX" + tag), T.sym("W2" + tag))

    @staticmethod
    def zero():
        return WSum(ZERO, ZERO, ZERO)

    def push(self, x, w):
        return WSum(self.W + w, self.WX + w * x, self.W2 + w * w)

    def plus(self, o):
        return WSum(self.W + o.W, self.WX + o.WX, self.W2 + o.W2)


def wm_state(cr, S, positive, tag):
    """WeightedMean representing S; when the total weight is 0 the mean field is unobservable (free)."""
    if positive:
        return cr.mk("WeightedMean", weight_sum=S.W, weighted_avg=S.WX / S.W)
    return cr.mk("WeightedMean", weight_sum=ZERO, weighted_avg=T.sym("wavg0" + tag))


def check_wm(pr, cr):
    x, w = T.sym("x"), T.sym("w")
    f = F + "::WeightedMean::add"
    for ctor in ("new", "default"):
        for p in Exec(cr).run(lambda: ({}, []), lambda e, r: e.call("WeightedMean", ctor, None, [])):
            pr.eq("WeightedMean.%s.rep_weight_sum" % ctor, F + "::WeightedMean::" + ctor, p.pc, p.result["weight_sum"], ZERO)
    for case, pos, whyp in (("W=0,w=0", False, [w.eq(0)]), ("W=0,w>0", False, [w.gt(0)]), ("W>0,w>=0", True, [w.ge(0)])):
        S = WSum.symbolic("") if pos else WSum.zero()
        hyps = ([S.W.gt(0)] if pos else []) + whyp
        Sp = S.push(x, w)
        paths = Exec(cr).run(lambda: ({"self": wm_state(cr, S, pos, "")}, list(hyps)),
                             lambda e, r: e.call("WeightedMean", "add", r["self"], [x, w]))
        pre = "WeightedMean.add[%s]" % case
        pr.feasible(pre + ".hyps_sat", f, hyps)
        pr.no_panic(pre + ".no_panic", f, paths)
        pr.sides(pre, f, paths)
        for p in paths:
            if p.panic:
                continue
            st = p.state["self"]
            pr.eq(pre + ".rep_weight_sum", f, p.pc, st["weight_sum"], Sp.W, cls={"case": case})
            if case != "W=0,w=0":
                pr.eq(pre + ".rep_wavg", f, p.pc, st["weighted_avg"], Sp.WX / Sp.W, cls={"case": case})
            else:
                # a zero-weight observation changes nothing observable: still empty, mean field free of NaN
                pr.holds(pre + ".wavg_defined", f, p.pc, TRUE if not tm.mentions(st["weighted_avg"]) else FALSE, cls={"case": case})
    fm = F + "::<WeightedMean as Merge>::merge"
    for cname, apos, bpos in (("both", True, True), ("b_zero", True, False), ("a_zero", False, True), ("both_zero", False, False)):
        Sa = WSum.symbolic("a") if apos else WSum.zero()
        Sb = WSum.symbolic("b") if bpos else WSum.zero()
        hyps = ([Sa.W.gt(0)] if apos else []) + ([Sb.W.gt(0)] if bpos else [])
        Su = Sa.plus(Sb)
        paths = Exec(cr).run(lambda: ({"self": wm_state(cr, Sa, apos, "a"), "other": wm_state(cr, Sb, bpos, "b")}, list(hyps)),
                             lambda e, r: e.call("WeightedMean", "merge", r["self"], [Ref(r["other"])]))
        pre = "WeightedMean.merge[%s]" % cname
        pr.feasible(pre + ".hyps_sat", fm, hyps)
        pr.no_panic(pre + ".no_panic", fm, paths)
        pr.sides(pre, fm, paths)
        for p in paths:
            if p.panic:
                continue
            st = p.state["self"]
            pr.eq(pre + ".rep_weight_sum", fm, p.pc, st["weight_sum"], Su.W, cls={"case": cname})
            if apos or bpos:
                pr.eq(pre + ".rep_wavg", fm, p.pc, st["weighted_avg"], Su.WX / Su.W, cls={"case": cname})
            ob = wm_state(cr, Sb, bpos, "b")
            pr.holds(pre + ".frame_other", fm, [], TRUE if all(ob[k] == p.state["other"][k] for k in ob) else FALSE)
    # accessors
    W, a = T.sym("W"), T.sym("wavg")
    mk = lambda Wv: (lambda n: cr.mk("WeightedMean", weight_sum=Wv, weighted_avg=a))
    for cname, Wv, hyps, sp_mean, empty in (("W=0", ZERO, [], ("nan",), TRUE), ("W>0", W, [W.gt(0)], ("eq", a), FALSE)):
        mr.check_accessor(pr, cr, "WeightedMean", F, "mean", [(cname, None, hyps, sp_mean)], mk(Wv))
        mr.check_accessor(pr, cr, "WeightedMean", F, "sum_weights", [(cname, None, hyps, ("eq", Wv))], mk(Wv))
        mr.check_accessor(pr, cr, "WeightedMean", F, "is_empty", [(cname, None, hyps, ("bool", empty))], mk(Wv))


def wme_state(cr, P, S, kind, tag):
    """kind: 'empty' (n = 0), 'zero' (n >= 1, all weights 0), 'pos' (n >= 1, W > 0)."""
    var = mr.rep_state(cr, "Variance", P if kind != "empty" else None, tag)
    if kind == "pos":
        return cr.mk("WeightedMeanWithError", weight_sum_sq=S.W2, weighted_avg=wm_state(cr, S, True, tag), unweighted_avg=var)
    return cr.mk("WeightedMeanWithError", weight_sum_sq=ZERO, weighted_avg=wm_state(cr, S, False, tag), unweighted_avg=var)


def wme_compare(pr, pre, fname, p, P, S, positive, cls):
    st = p.state["self"]
    pr.eq(pre + ".rep_w2", fname, p.pc, st["weight_sum_sq"], S.W2, cls=cls)
    pr.eq(pre + ".rep_weight_sum", fname, p.pc, st["weighted_avg"]["weight_sum"], S.W, cls=cls)
    if positive:
        pr.eq(pre + ".rep_wavg", fname, p.pc, st["weighted_avg"]["weighted_avg"], S.WX / S.W, cls=cls)
    else:
        pr.holds(pre + ".wavg_defined", fname, p.pc, TRUE if not tm.mentions(st["weighted_avg"]["weighted_avg"]) else FALSE, cls=cls)
    v = mr.read_state(st["unweighted_avg"])
    pr.eq(pre + ".rep_n", fname, p.pc, real(v["n"]), real(P.n), cls=cls)
    pr.eq(pre + ".rep_avg", fname, p.pc, v["avg"], P.mean(), cls=cls)
    pr.eq(pre + ".rep_sum2", fname, p.pc, v["sum_2"], P.M(2), cls=cls)


def kinds():
    return (("empty", "empty"), ("zero", "n>=1,W=0"), ("pos", "n>=1,W>0"))


def mk_summary(kind, tag):
    if kind == "empty":
        return None, WSum.zero(), []
    P = PowerSums.symbolic(tag, 2)
    hy = [P.n.ge(1), P.n.lt(NMAX)]
    if kind == "zero":
        return P, WSum.zero(), hy
    S = WSum.symbolic(tag)
    return P, S, hy + [S.W.gt(0)]


def check_wme(pr, cr):
    x, w = T.sym("x"), T.sym("w")
    f = F + "::WeightedMeanWithError::add"
    for ctor in ("new", "default"):
        for p in Exec(cr).run(lambda: ({}, []), lambda e, r: e.call("WeightedMeanWithError", ctor, None, [])):
            st = p.result
            fn = F + "::WeightedMeanWithError::" + ctor
            pr.eq("WeightedMeanWithError.%s.rep_w2" % ctor, fn, p.pc, st["weight_sum_sq"], ZERO)
            pr.eq("WeightedMeanWithError.%s.rep_weight_sum" % ctor, fn, p.pc, st["weighted_avg"]["weight_sum"], ZERO)
            v = mr.read_state(st["unweighted_avg"])
            pr.eq("WeightedMeanWithError.%s.rep_n" % ctor, fn, p.pc, real(v["n"]), ZERO)
            pr.eq("WeightedMeanWithError.%s.rep_sum2" % ctor, fn, p.pc, v["sum_2"], ZERO)
    for kind, kname in kinds():
        for wname, whyp in (("w=0", [w.eq(0)]), ("w>0", [w.gt(0)])):
            P, S, hy = mk_summary(kind, "")
            hyps = hy + whyp
            Pp = (P or PowerSums.empty(2)).push(x)
            Sp = S.push(x, w)
            positive = (kind == "pos") or wname == "w>0"
            paths = Exec(cr).run(lambda: ({"self": wme_state(cr, P, S, kind, "")}, list(hyps)),
                                 lambda e, r: e.call("WeightedMeanWithError", "add", r["self"], [x, w]))
            pre = "WeightedMeanWithError.add[%s,%s]" % (kname, wname)
            pr.feasible(pre + ".hyps_sat", f, hyps)
            pr.no_panic(pre + ".no_panic", f, paths)
            pr.sides(pre, f, paths)
            for p in paths:
                if not p.panic:
                    wme_compare(pr, pre, f, p, Pp, Sp, positive, {"case": pre})
    fm = F + "::<WeightedMeanWithError as Merge>::merge"
    for ka, kan in kinds():
        for kb, kbn in kinds():
            Pa, Sa, ha = mk_summary(ka, "a")
            Pb, Sb, hb = mk_summary(kb, "b")
            hyps = ha + hb
            Pu = (Pa or PowerSums.empty(2)).plus(Pb or PowerSums.empty(2))
            Su = Sa.plus(Sb)
            paths = Exec(cr).run(lambda: ({"self": wme_state(cr, Pa, Sa, ka, "a"), "other": wme_state(cr, Pb, Sb, kb, "b")}, list(hyps)),
                                 lambda e, r: e.call("WeightedMeanWithError", "merge", r["self"], [Ref(r["other"])]))
            pre = "WeightedMeanWithError.merge[%s|%s]" % (kan, kbn)
            pr.feasible(pre + ".hyps_sat", fm, hyps)
            pr.no_panic(pre + ".no_panic", fm, paths)
            pr.sides(pre, fm, paths)
            for p in paths:
                if p.panic:
                    continue
                if ka == "empty" and kb == "empty":
                    st = p.state["self"]
                    pr.eq(pre + ".rep_w2", fm, p.pc, st["weight_sum_sq"], ZERO)
                    pr.eq(pre + ".rep_n", fm, p.pc, real(mr.read_state(st["unweighted_avg"])["n"]), ZERO)
                    pr.eq(pre + ".rep_weight_sum", fm, p.pc, st["weighted_avg"]["weight_sum"], ZERO)
                else:
                    wme_compare(pr, pre, fm, p, Pu, Su, ka == "pos" or kb == "pos", {"case": pre})
    # accessors over free symbols
    n, W, W2, a, avg, M2 = T.sym("n", UINT), T.sym("W"), T.sym("W2"), T.sym("wavg"), T.sym("avg"), T.sym("M2")
    ty = "WeightedMeanWithError"

    def mk(nv, Wv, W2v):
        return lambda _n: cr.mk(ty, weight_sum_sq=W2v, weighted_avg=cr.mk("WeightedMean", weight_sum=Wv, weighted_avg=a),
                                unweighted_avg=mr.fixed_state(cr, "Variance", nv, avg, {2: M2}))
    rz = [M2.ge(0)]
    pos = [n.lt(NMAX), W.gt(0), W2.gt(0), W2.le(W * W), (W * W).le(real(n) * W2)] + rz   # realizable weights (C17 proves the invariant)
    acc = lambda name, cases, m, label=None: mr.check_accessor(pr, cr, ty, F, name, cases, m, label=label)
    for cname, nv, Wv, W2v, hyps in (("empty", T.num(0, UINT), ZERO, ZERO, rz),
                                     ("n>=1,W=0", n, ZERO, ZERO, [n.ge(1), n.lt(NMAX)] + rz),
                                     ("n=1,W>0", T.num(1, UINT), W, W2, [W.gt(0), W2.gt(0), W2.eq(W * W), M2.eq(0)]),
                                     ("n>=2,W>0", n, W, W2, [n.ge(2)] + pos)):
        m = mk(nv, Wv, W2v)
        one = lambda sp: [(cname, None, hyps, sp)]
        wpos = Wv is not ZERO
        acc("len", one(("eq", nv)), m)
        acc("is_empty", one(("bool", TRUE if cname == "empty" else FALSE)), m)
        acc("sum_weights", one(("eq", Wv)), m)
        acc("sum_weights_sq", one(("eq", W2v)), m)
        acc("weighted_mean", one(("eq", a) if wpos else ("nan",)), m)
        acc("unweighted_mean", one(("nan",) if cname == "empty" else ("eq", avg)), m)
        acc("population_variance", one(("nan",) if cname == "empty" else ("eq", M2 / real(nv))), m)
        two = cname.startswith("n>=2") or cname == "n>=1,W=0"
        if cname == "n>=2,W>0":
            acc("sample_variance", one(("eq", M2 / (real(nv) - 1))), m)
            acc("effective_len", one(("pred", lambda r: And((r * W2).eq(W * W), r.ge(1), r.le(real(n))))), m)
            acc("variance_of_weighted_mean", one(("eq", (M2 / (real(nv) - 1)) * W2 / (W * W))), m)
            acc("error", one(("root", (M2 / (real(nv) - 1)) * W2 / (W * W))), m)
        elif cname == "empty":
            acc("sample_variance", one(("nan",)), m)
            acc("effective_len", one(("eq", ZERO)), m)
            acc("variance_of_weighted_mean", one(("nan",)), m)
            acc("error", one(("nan",)), m)
        elif cname == "n=1,W>0":
            acc("sample_variance", one(("nan",)), m)
            acc("effective_len", one(("eq", T.num(1, REAL))), m)
            acc("variance_of_weighted_mean", one(("nan",)), m)
            acc("error", one(("nan",)), m)
        else:  # only zero weights so far: weighted statistics undefined
            acc("variance_of_weighted_mean", one(("nan",)), m)
            acc("error", one(("nan",)), m)


def check_wme_modular(pr, cr):
    """WeightedMeanWithError::add / merge with WeightedMean::{add,merge} and Variance::{add,merge} replaced by their
    CONTRACTS (rep in, rep out) instead of their bodies: the composite estimator is proved from the contracts of its parts."""
    import backends
    x, w = T.sym("x"), T.sym("w")

    def wm_eq(a, b):
        return all(a[k] == b[k] or backends.sympy_equal(a[k], b[k]) for k in ("weight_sum", "weighted_avg"))

    def run_case(label, fname, op, Pa, Sa, Pb=None, Sb=None):
        used = []

        def wm_add(ex, recv, args):
            if wm_eq(recv, wm_state(cr, Sa, True, "")):
                recv.update(wm_state(cr, Sa.push(args[0], args[1]), True, ""))
                used.append("WeightedMean::add")
            else:
                ex.oblige("callee_requires", FALSE, None, "requires of WeightedMean::add")
            return ()

        def var_add(ex, recv, args):
            if mr.states_equal(recv, mr.rep_state(cr, "Variance", Pa, "")):
                recv.clear()
                recv.update(mr.rep_state(cr, "Variance", Pa.push(args[0]), ""))
                used.append("<Variance as Estimate>::add")
            else:
                ex.oblige("callee_requires", FALSE, None, "requires of Variance::add")
            return ()

        def wm_merge(ex, recv, args):
            o = ex.deref(args[0]) if isinstance(args[0], Ref) else args[0]
            if wm_eq(recv, wm_state(cr, Sa, True, "a")) and wm_eq(o, wm_state(cr, Sb, True, "b")):
                recv.update(wm_state(cr, Sa.plus(Sb), True, ""))
                used.append("<WeightedMean as Merge>::merge")
            else:
                ex.oblige("callee_requires", FALSE, None, "requires of WeightedMean::merge")
            return ()

        def var_merge(ex, recv, args):
            o = ex.deref(args[0]) if isinstance(args[0], Ref) else args[0]
            if mr.states_equal(recv, mr.rep_state(cr, "Variance", Pa, "a")) and mr.states_equal(o, mr.rep_state(cr, "Variance", Pb, "b")):
                recv.clear()
                recv.update(mr.rep_state(cr, "Variance", Pa.plus(Pb), ""))
                used.append("<Variance as Merge>::merge")
            else:
                ex.oblige("callee_requires", FALSE, None, "requires of Variance::merge")
            return ()
        ex = Exec(cr)
        if op == "add":
            ex.contracts = {("WeightedMean", "add"): wm_add, ("Variance", "add"): var_add}
            hyps = [Pa.n.ge(1), Pa.n.lt(NMAX), Sa.W.gt(0), w.ge(0)]
            paths = ex.run(lambda: ({"self": wme_state(cr, Pa, Sa, "pos", "")}, list(hyps)),
                           lambda e, r: e.call("WeightedMeanWithError", "add", r["self"], [x, w]))
            Pp, Sp = Pa.push(x), Sa.push(x, w)
        else:
            ex.contracts = {("WeightedMean", "merge"): wm_merge, ("Variance", "merge"): var_merge}
            hyps = [Pa.n.ge(1), Pa.n.lt(NMAX), Sa.W.gt(0), Pb.n.ge(1), Pb.n.lt(NMAX), Sb.W.gt(0)]
            paths = ex.run(lambda: ({"self": wme_state(cr, Pa, Sa, "pos", "a"), "other": wme_state(cr, Pb, Sb, "pos", "b")}, list(hyps)),
                           lambda e, r: e.call("WeightedMeanWithError", "merge", r["self"], [Ref(r["other"])]))
            Pp, Sp = Pa.plus(Pb), Sa.plus(Sb)
        pre = "WeightedMeanWithError.%s[%s].via_contracts_of_parts" % (op, label)
        pr.no_panic(pre + ".no_panic", fname, paths)
        pr.sides(pre, fname, paths)
        pr.holds(pre + ".callee_contracts_applied", fname, [], TRUE if len(set(used)) == 2 else FALSE)
        for p in paths:
            if not p.panic:
                wme_compare(pr, pre, fname, p, Pp, Sp, True, {"case": pre, "modular": True})
    tag = lambda t: (PowerSums.symbolic(t, 2), WSum.symbolic(t))
    Pa, Sa = tag("")
    run_case("n>=1,W>0", F + "::WeightedMeanWithError::add", "add", Pa, Sa)
    (Pa, Sa), (Pb, Sb) = tag("a"), tag("b")
    run_case("n>=1,W>0|n>=1,W>0", F + "::<WeightedMeanWithError as Merge>::merge", "merge", Pa, Sa, Pb, Sb)


def sample_variance_obligations(pr):
    """C10: WeightedMeanWithError::sample_variance = population variance * n/(n-1)."""
    cr = load()
    n, avg, M2, a = T.sym("n", UINT), T.sym("avg"), T.sym("M2"), T.sym("wavg")
    mk = lambda nv: cr.mk("WeightedMeanWithError", weight_sum_sq=T.sym("W2"),
                          weighted_avg=cr.mk("WeightedMean", weight_sum=T.sym("W"), weighted_avg=a),
                          unweighted_avg=mr.fixed_state(cr, "Variance", nv, avg, {2: M2}))
    mr.check_accessor(pr, cr, "WeightedMeanWithError", F, "sample_variance",
                      n_cases(2, lambda n: ("eq", (M2 / real(n)) * real(n) / (real(n) - 1)), extra_hyps=[M2.ge(0)]), mk)


def run(tier, seed):
    pr = Prover("C08", tier)
    cr = load()
    check_wm(pr, cr)
    check_wme(pr, cr)
    check_wme_modular(pr, cr)
    obs = pr.obs
    import envelope
    obs += guarded("C08.engine.envelope.guard_weighted@L334", lambda: envelope.guard_weighted("C08"))
    obs += guarded("C08.engine.vl.run_lemmas@L335", lambda: vl.run_lemmas("C08", ["lemma_fold", "merge_tree", "concat"]))
    import rs_crosscheck
    obs += guarded("C08.engine.rs_crosscheck", lambda: rs_crosscheck.crosscheck("C08", ['WeightedMean', 'WeightedMeanWithError']))
    meta = {
        "level": "proof",
        "checker_cmd": "./check C08 (rsx -> RS executor -> sympy / z3 QF_NRA; verus history.rs)",
        "functions_under_contract": ["WeightedMean::{new,default,add,is_empty,sum_weights,mean}", "<WeightedMean as Merge>::merge",
                                     "WeightedMeanWithError::{new,default,add,is_empty,sum_weights,sum_weights_sq,weighted_mean,unweighted_mean,len,"
                                     "effective_len,population_variance,sample_variance,variance_of_weighted_mean,error}",
                                     "<WeightedMeanWithError as Merge>::merge", "Variance::{add,merge,...} and Mean::{...} as executed callees"],
        "source_files": [F, "src/moments/variance.rs", "src/moments/mean.rs"],
        "extraction": EXTRACTION,
        "trusted_base": ["rsx + RS executor (own code)", "sympy polynomial arithmetic", "z3 5.1 nlsat", "Verus (history lemmas)"],
        "assumptions": [A_REAL, A_INT, A_LIB, "requires: weights >= 0 (the property's quantifier)",
                        "accessor contracts for W > 0 assume the realizable-weights invariant 0 < W2 <= W^2 <= n*W2, which C17 proves inductive",
                        "collect/extend glue is C20's subject; every chunking/bracketing by the Verus merge-tree lemma",
                        "WeightedMeanWithError::{add,merge} are proved twice: with the real bodies of WeightedMean / Variance executed, and modularly from their contracts only (via_contracts_of_parts)",
                        "the 8*n*2^-53 relative envelopes are not decided (A-REAL); a BOUNDED known-answer corpus (envelope_guard) exercises them"],
        "explanation": "rep of (n,S1,S2,W,W2,WX) preserved by add/merge in all emptiness-by-weight cases; a zero-weight observation changes only the unweighted part.",
    }
    return obs, meta, confirm


def confirm(ob):
    import envelope
    r = envelope.confirm_from_cex(ob)
    if r:
        return r
    import replay, oracle
    from fractions import Fraction as Fr
    import math
    seqs = [[(1.0, 0.0), (2.0, 1.0), (4.0, 1.0)], [(1.0, 2.0)], [(1.0, 1.0), (3.0, 0.0)], [(1.0, 2.0), (2.0, 5.0), (4.0, 3.0)],
            [(5.0, 0.0), (1.0, 0.0), (2.0, 0.5), (8.0, 4.0)], [(-1.0, 5.0), (0.5, 2.0), (3.0, 0.0), (7.0, 1.0), (2.0, 2.0)]]
    out = None
    for ty, accs in (("WeightedMean", ["mean", "sum_weights", "is_empty"]),
                     ("WeightedMeanWithError", ["len", "is_empty", "sum_weights", "sum_weights_sq", "weighted_mean", "unweighted_mean",
                                                "effective_len", "population_variance", "sample_variance", "variance_of_weighted_mean", "error"])):
        if ("." + ty + ".") not in ob.name:
            continue
        progs = []
        for s in seqs:
            progs.append({"type": ty, "ctor": ["new"], "ops": [["add2", a, b] for a, b in s], "observe": accs})
            for cut in range(0, len(s) + 1):
                progs.append({"type": ty, "ctor": ["new"], "ops": [["add2", a, b] for a, b in s[:cut]] + [
                    ["merge", {"type": ty, "ctor": ["new"], "ops": [["add2", a, b] for a, b in s[cut:]]}]], "observe": accs})
        results = replay.run_programs(progs)
        for prog, res in zip(progs, results):
            if res.get("error"):
                return {"replay_error": res["error"]}
            pts = [(Fr(a), Fr(b)) for a, b in oracle.flatten_moment_prog(prog)]
            n = len(pts)
            W = sum(w for _, w in pts)
            W2 = sum(w * w for _, w in pts)
            WX = sum(w * x for x, w in pts)
            st = oracle.moment_stats([x for x, _ in pts])
            exp = {"len": n, "sum_weights": W, "sum_weights_sq": W2, "unweighted_mean": st["mean"],
                   "population_variance": st["population_variance"], "sample_variance": st["sample_variance"]}
            exp["is_empty"] = (W == 0) if ty == "WeightedMean" else (n == 0)
            exp["mean"] = exp["weighted_mean"] = (WX / W) if W > 0 else "nan"
            exp["effective_len"] = (W * W / W2) if W > 0 else (Fr(0) if n == 0 else None)
            if W > 0 and n >= 2:
                exp["variance_of_weighted_mean"] = st["sample_variance"] * W2 / (W * W)
                exp["error"] = math.sqrt(float(exp["variance_of_weighted_mean"]))
            else:
                exp["variance_of_weighted_mean"] = "nan"
                exp["error"] = "nan"
            bad = oracle.compare(res, exp, accs)
            if res["panic"]:
                bad = [("panic", "no panic", res["panic"])]
            if bad:
                return {"program": prog, "expected": {k: e for k, e, a in bad}, "actual": {k: a for k, e, a in bad},
                        "panic": res["panic"], "confirmed_on_real_code": True}
        out = {"confirmed_on_real_code": False, "note": "%d short histories agree with the exact statistics" % len(progs)}
    return out
