from common import guarded
"""C06  A histogram counts each sample in the unique half-open bin that contains it.  Engine K."""
from hist_common import hist_job, hist_const_job, COMMON_META, F, FC

NAMES = [
    ("find_iff_bin", "find.iff_bin_unique", "find/range_min/range_max"),
    ("find_add_nan_is_error", "add.nan_is_error_no_panic", "find/add"),
    ("add_count_frame_total", "add.count_frame_total", "add/find/bins/ranges"),
]


FIND_ATTRS = ["kani::requires(verif_kani::valid_edges(&self.range))",
              "kani::ensures(|r| verif_kani::find_post(&self.range, x, r))"]
ARB = "\n#[cfg(kani)]\nimpl kani::Arbitrary for SampleOutOfRangeError {\n    fn any() -> Self {\n        SampleOutOfRangeError\n    }\n}\n"


def modular_job(tier):
    """Function contract on the macro-generated find (proof_for_contract) and add proved from that contract only
    (stub_verified): add's proof no longer depends on LEN through the binary search, (LEN = 100 still exceeds 900 s in CBMC because of the 100-element symbolic arrays, so LEN in {3, 10})."""
    obs = []
    for lens, names, unwind in (([3], [("find_contract", "find.function_contract", "find")], 8),
                                ([3, 10], [("add_via_find_contract", "add.via_find_contract", "add (find through its contract)")], 14)):
        j = hist_job("C06", lens, names, unwind=unwind, timeout=1500, harness_timeout=900, modular=True)
        j.append(F, ARB)
        j.contract_in_macro(F, "define_histogram_common", {"LEN": "3"}, "Histogram", None, "find", FIND_ATTRS)
        obs += j.run()
    return obs


def large_len_corpus():
    """BOUNDED stand-in for the large configurations (LEN = 33, 100): find(x) against a linear-scan oracle for every
    edge, its floating-point neighbours, midpoints, +-inf, NaN and -0.0 on uniform, non-uniform, infinite-edged and
    repeated-edge histograms.  The bit-precise Kani harness is complete per LEN but needs > 10 min already for LEN = 40."""
    import math
    import replay
    from common import Obligation, DISCHARGED, REFUTED, UNDECIDED
    inf = float("inf")
    obs = []
    for ty, L in (("H33", 33), ("H100", 100)):
        edge_sets = [
            [float(i) for i in range(L + 1)],
            [float(i) for i in range(L)] + [float(L - 1) + 100.0],
            [-inf] + [float(i) for i in range(1, L)] + [inf],
            [0.25 * i * i for i in range(L + 1)],
            [float(i // 2) for i in range(L + 1)],
            [i * (1000.0 / L) for i in range(L + 1)],
        ]
        progs, metas = [], []
        for edges in edge_sets:
            xs = set()
            for e in edges:
                if e == e and abs(e) != inf:
                    xs.update([e, math.nextafter(e, inf), math.nextafter(e, -inf)])
            for a, b in zip(edges, edges[1:]):
                if abs(a) != inf and abs(b) != inf:
                    xs.add(0.5 * (a + b))
            xs = sorted(xs) + [inf, -inf, -0.0, float("nan")]
            progs.append({"type": ty, "ctor": ["from_ranges", edges], "ops": [], "observe": [["find", x] for x in xs]})
            metas.append((edges, xs))
        name = "C06.hist[%d].find.linear_scan_corpus" % L
        fn = F + "::define_histogram!(_, %d)::find" % L
        bound = "%d edge vectors x every edge, its neighbours, midpoints, +-inf, NaN, -0.0 (%d samples)" % (len(edge_sets), sum(len(m[1]) for m in metas))
        results = replay.run_programs(progs, timeout=900)
        verdict = None
        for pg, res, (edges, xs) in zip(progs, results, metas):
            if res.get("error"):
                verdict = Obligation(name, fn, "replay+oracle", UNDECIDED, 0.0, "replay failed: " + res["error"], bounded=bound, kind="bounded")
                break
            if res["panic"]:
                verdict = Obligation(name, fn, "replay+oracle", REFUTED, 0.0, "panic: " + res["panic"], cex={"class": {"corpus": True}, "program": pg}, bounded=bound, kind="bounded")
                break
            for x in xs:
                key = "find(%s)" % x
                got = res["obs"].get(key)
                exp = None
                if x == x and edges[0] <= x < edges[-1]:
                    for i in range(L):
                        if edges[i] <= x < edges[i + 1]:
                            exp = i
                            break
                if got != exp:
                    small = {"type": ty, "ctor": ["from_ranges", edges], "ops": [], "observe": [["find", x]]}
                    verdict = Obligation(name, fn, "replay+oracle", REFUTED, 0.0, "find(%r) = %r, the bin containing it is %r" % (x, got, exp),
                                         cex={"class": {"corpus": True}, "program": small, "statistic": key, "expected": repr(exp), "actual": repr(got)},
                                         bounded=bound, kind="bounded")
                    break
            if verdict:
                break
        obs.append(verdict or Obligation(name, fn, "replay+oracle", DISCHARGED, 0.0, "all samples in the bin the linear scan finds", bounded=bound, kind="bounded",
                                         text="find vs linear scan, LEN = %d" % L))
    return obs


def run(tier, seed):
    lens = [1, 2, 3, 4] if tier == "quick" else [1, 2, 3, 4, 10]
    job = hist_job("C06", lens, NAMES, unwind=14)
    obs = guarded("C06.engine.job.run@L96", lambda: job.run())
    obs += guarded("C06.engine.modular_job@L97", lambda: modular_job(tier))
    obs += guarded("C06.engine.large_len_corpus@L98", lambda: large_len_corpus())
    if tier == "quick":
        # the exported Histogram10 (the crate's own instantiation): find/add against the bin contract as well
        obs += hist_job("C06", [10], NAMES[:1], unwind=14, timeout=900, harness_timeout=600).run()
    # the const-generic copy (feature nightly) is a second implementation of the same contract: both tiers (seconds)
    obs += guarded("C06.engine.hist_const_job@L103", lambda: hist_const_job("C06", [1, 3], NAMES, unwind=8).run())
    if tier == "thorough":
        # LEN = 100 does not terminate within 2700 s in CBMC (LEN = 40 needs ~12 min): the largest complete proof is LEN = 40,
        # LEN = 100 stays with the bounded linear-scan corpus
        j3 = hist_job("C06", [40], [NAMES[0]], unwind=44, timeout=2700, harness_timeout=2400)
        obs += j3.run()
    meta = dict(COMMON_META)
    meta.update({
        "level": "proof",
        "checker_cmd": "cargo kani --no-default-features --features std --default-unwind 14 (scratch copy of /repo + contracts/kani/histogram.rs)",
        "functions_under_contract": ["Histogram::find", "Histogram::add", "Histogram::bins", "Histogram::ranges",
                                     "Histogram::range_min", "Histogram::range_max"],
        "source_files": [F, FC, "src/lib.rs"],
        "assumptions": [
            "modular part: find carries a Kani function contract (requires valid edges; ensures the half-open-bin postcondition), proved by proof_for_contract for LEN = 3; add is proved from that contract alone (stub_verified) for LEN in {3, 10}",
            "LEN = 33 and LEN = 100: BOUNDED linear-scan corpus only in the quick tier (find.linear_scan_corpus, listed under `bounded`); the largest complete Kani proof of find is LEN = 40 (thorough tier, ~12 min); LEN = 100 did not terminate within 2700 s",
            "find.iff_bin_unique additionally for LEN = 10 (average::Histogram10) in the quick tier",
            "configurations: LEN in %s (complete per LEN: edges are LEN+1 fully symbolic f64 constrained only by validity, "
            "x is every f64); other LEN are not covered by this run" % lens,
            "is_valid(histogram) = edges without NaN and non-decreasing, which C12 proves is exactly what from_ranges/with_const_width produce",
            "counts below 2^40 (no u64 overflow)",
            "A-CBMC: CBMC's model of f64 comparison and Kani's compilation of core's binary search",
            "total == number of successful adds for every add sequence follows from add.count_frame_total by induction on the sequence (each step +1 / +0)",
            "histogram_const.rs (feature nightly): LEN in {1, 3}, both tiers",
        ],
        "explanation": "Per LEN, loop bounds are the macro parameter; unwinding assertions prove the unwind bound sufficient, so each harness is a complete proof for that LEN.",
    })
    return obs, meta, confirm


def confirm(ob):
    c = ob.cex or {}
    if c.get("program") and c.get("statistic"):
        return {"program": c["program"], "expected": {c["statistic"]: c.get("expected")}, "actual": {c["statistic"]: c.get("actual")},
                "confirmed_on_real_code": True}
    import replay
    from kani_engine import playback_floats
    import re
    m = re.search(r"hist(_const)?\[(\d+)\]", ob.name)
    if not m:
        return None
    L = int(m.group(2))
    fl = playback_floats(ob.cex)
    if len(fl) < L + 2:
        return None
    edges = fl[:L + 1]
    # any_hist(): range (L+1 floats), then bins (u64), then x (f64) -- x is the last f64 read
    x = fl[-1]
    t = {1: "H1", 2: "H2", 3: "H3", 4: "H4", 10: "Histogram10"}.get(L)
    if m.group(1):
        t = "HC%d" % L if L <= 4 else None      # the const-generic copy: replayed with cargo +nightly (feature nightly)
    if t is None or any(e != e for e in edges):
        return None
    prog = {"type": t, "ctor": ["from_ranges", edges], "ops": [["add", x]], "observe": ["bins"]}
    res = replay.run_program(prog)
    lo, hi = edges[0], edges[-1]
    in_range = (x == x) and lo <= x < hi
    exp_bins = [0] * L
    if in_range:
        for i in range(L):
            if edges[i] <= x < edges[i + 1]:
                exp_bins[i] = 1
    act = res["obs"].get("bins")
    addr = res["lists"].get("add_results", [None])[0]
    bad = res["panic"] is not None or act != exp_bins or addr != in_range
    return {"program": prog, "expected": {"bins": exp_bins, "add_ok": in_range}, "actual": {"bins": act, "add_ok": addr},
            "panic": res["panic"], "confirmed_on_real_code": bool(bad and not res["error"])}
