"""C13  Histogram merge, +=, *=, reset and views are exact bin-wise operations.  Engine K (+VL, structural)."""
import os
from common import Obligation, DISCHARGED, REFUTED, UNDECIDED, REPO, Undecided, guarded
from hist_common import hist_job, hist_const_job, COMMON_META, F, FC
from kani_engine import rsx_parse
import subprocess, json
from common import RSX
import vl

NAMES = [
    ("merge_and_add_assign_binwise", "merge_add_assign.binwise_equal_edges_kept", "<Histogram as Merge>::merge / AddAssign::add_assign"),
    ("merge_commutes", "merge.commutes", "<Histogram as Merge>::merge"),
    ("merge_empty_identity", "merge.empty_identity_and_reset", "merge/reset"),
    ("merge_mismatch_panics", "merge.mismatch_panics", "<Histogram as Merge>::merge", True),
    ("add_assign_mismatch_panics", "add_assign.mismatch_panics", "AddAssign::add_assign", True),
    ("iter_items", "iter.items_len_order", "iter/into_iter/IterHistogram::next"),
]
MUL = [("mul_assign_binwise", "mul_assign.binwise", "MulAssign::mul_assign")]

PANICKY = ("assert", "assert_eq", "assert_ne", "panic", "unreachable", "todo", "unimplemented")


def _walk(node, fn):
    if isinstance(node, dict):
        fn(node)
        for v in node.values():
            _walk(v, fn)
    elif isinstance(node, list):
        for v in node:
            _walk(v, fn)


def _may_panic(stmt):
    hit = []

    def f(n):
        if n.get("k") == "macro" and n.get("name", "").split("::")[-1] in PANICKY:
            hit.append(n)
        if n.get("k") == "mcall" and n.get("m") in ("unwrap", "expect"):
            hit.append(n)
    _walk(stmt, f)
    return bool(hit)


def _writes_self(stmt):
    hit = []

    def f(n):
        if n.get("k") == "mcall" and n.get("m") in ("iter_mut", "as_mut", "fill", "swap", "copy_from_slice", "clone_from"):
            hit.append(n)
        if n.get("k") == "assign":
            hit.append(n)
        if n.get("k") == "binary" and n.get("op", "").endswith("=") and n["op"] not in ("==", "<=", ">=", "!="):
            hit.append(n)
        if n.get("k") == "ref" and n.get("mut"):
            hit.append(n)
    _walk(stmt, f)
    return bool(hit)


def structural(prop):
    """mismatch.no_mutation: in merge and add_assign every statement that can panic precedes every
    statement that can write through self (sufficient condition, checked on the real source)."""
    p = subprocess.run([RSX, "expand", os.path.join(REPO, F), "define_histogram_common", "LEN=3"],
                       stdout=subprocess.PIPE, stderr=subprocess.PIPE, text=True)
    if p.returncode != 0:
        raise Undecided("rsx expand failed: " + p.stderr)
    ast = json.loads(p.stdout)
    obs = []
    for (trait, fn) in (("Merge", "merge"), ("AddAssign", "add_assign")):
        found = None
        for it in ast["items"]:
            if it["k"] == "impl" and it.get("trait") and trait in it["trait"] and it["target"].replace(" ", "") == "Histogram":
                for f in it["items"]:
                    if f["k"] == "fn" and f["name"] == fn:
                        found = f
        name = "%s.%s.asserts_dominate_writes" % (prop, fn)
        if not found:
            obs.append(Obligation(name, F + "::" + fn, "structural", UNDECIDED, 0, "lost anchor: fn %s" % fn))
            continue
        stmts = found["body"]["stmts"]
        first_write = None
        bad = None
        for i, s in enumerate(stmts):
            w, pn = _writes_self(s), _may_panic(s)
            if first_write is None and w:
                first_write = i
                if pn:
                    bad = s
            elif first_write is not None and pn:
                bad = s
        if bad is not None:
            obs.append(Obligation(name, F + "::" + fn, "structural", REFUTED, 0,
                                  "a statement that can panic (line %s) is not before every write through self" % bad.get("ln"),
                                  cex={"line": bad.get("ln")}))
        elif first_write is None:
            obs.append(Obligation(name, F + "::" + fn, "structural", UNDECIDED, 0, "no write through self recognised"))
        else:
            obs.append(Obligation(name, F + "::" + fn, "structural", DISCHARGED, 0,
                                  "%d statements, first write at statement %d, all panicking statements before it" % (len(stmts), first_write),
                                  text="dominance of assert*/unwrap/panic statements over writes in the syn AST of " + fn))
    return obs


def views_rs(tier):
    """Float-valued views under exact reals: widths = upper-lower, centers = (lower+upper)/2, normalized_bins =
    count/width, variance(i) = variances()[i] = count*(1 - count/total).  The inner iterator of the Iter* adaptors is
    abstract (its items are proved by the Kani harness iter_items)."""
    import terms as tm
    from terms import T, UINT, REAL, TRUE, FALSE, And, real
    from prove import Prover
    from executor import Exec, AbsIter, Arr, Opt
    import c12_rs
    pr = Prover("C13", tier)
    cr = c12_rs.load(3)
    a, b, cnt = T.sym("lower"), T.sym("upper"), T.sym("count", UINT)
    FT = "src/traits.rs"
    for it_ty, want, hyps in (("IterWidths", b - a, []), ("IterBinCenters", (a + b) / 2, []),
                              ("IterNormalized", real(cnt) / (b - a), [a.lt(b)])):
        def build():
            st = cr.mk(it_ty, histogram_iter=AbsIter([((a, b), cnt)]))
            return {"self": st}, list(hyps)
        def body(e, r):
            first = e.call(it_ty, "next", r["self"], [])
            second = e.call(it_ty, "next", r["self"], [])
            return first, second
        paths = Exec(cr).run(build, body)
        fname = FT + "::%s::next" % it_ty
        pr.no_panic("views.%s.next.no_panic" % it_ty, fname, paths)
        pr.sides("views.%s.next" % it_ty, fname, paths)
        for p in paths:
            if p.panic:
                continue
            first, second = p.result
            pr.holds("views.%s.next.some_then_none" % it_ty, fname, [], TRUE if isinstance(first, Opt) and first.some and isinstance(second, Opt) and not second.some else FALSE)
            if isinstance(first, Opt) and first.some:
                pr.eq("views.%s.next.item" % it_ty, fname, p.pc, first.v, want)
    # IterVariances::next and multinomial_variance
    sum_inv = T.sym("sum_inv")
    def buildv():
        return {"self": cr.mk("IterVariances", histogram_iter=AbsIter([((a, b), cnt)]), sum_inv=sum_inv)}, []
    def bodyv(e, r):
        first = e.call("IterVariances", "next", r["self"], [])
        second = e.call("IterVariances", "next", r["self"], [])
        return first, second
    paths = Exec(cr).run(buildv, bodyv)
    pr.no_panic("views.IterVariances.next.no_panic", FT + "::IterVariances::next", paths)
    for p in paths:
        if p.panic:
            continue
        first, second = p.result
        # one item per bin, whatever its count (an adaptor that skips empty bins shifts every later item)
        pr.holds("views.IterVariances.next.some_then_none", FT + "::IterVariances::next", [],
                 TRUE if isinstance(first, Opt) and first.some and isinstance(second, Opt) and not second.some else FALSE)
        if isinstance(first, Opt) and first.some:
            pr.eq("views.IterVariances.next.item", FT + "::IterVariances::next", p.pc, first.v, real(cnt) * (1 - real(cnt) * sum_inv))
    # variance(i) and variances() on a histogram with 3 bins
    c = [T.sym("c%d" % i, UINT) for i in range(3)]
    edges = [T.sym("e%d" % i) for i in range(4)]
    tot = real(c[0] + c[1] + c[2])
    hy = [ci.ge(0) for ci in c] + [(c[0] + c[1] + c[2]).ge(1)]
    def buildh():
        return {"self": cr.mk("Histogram", range=Arr(list(edges)), bin=Arr(list(c)))}, list(hy)
    for i in range(3):
        paths = Exec(cr).run(buildh, lambda e, r, i=i: e.call("trait:Histogram", "variance", r["self"], [T.num(i, UINT)]))
        pr.no_panic("views.variance(%d).no_panic" % i, FT + "::Histogram::variance", paths)
        pr.sides("views.variance(%d)" % i, FT + "::Histogram::variance", paths)
        for p in paths:
            if not p.panic:
                pr.eq("views.variance(%d).value" % i, FT + "::Histogram::variance", p.pc, p.result, real(c[i]) * (1 - real(c[i]) / tot))
    paths = Exec(cr).run(buildh, lambda e, r: e.call("trait:Histogram", "variances", r["self"], []))
    pr.sides("views.variances", FT + "::Histogram::variances", paths)
    for p in paths:
        if not p.panic:
            pr.eq("views.variances.sum_inv", FT + "::Histogram::variances", p.pc, p.result["sum_inv"], 1 / tot)
    return pr.obs


def views_bits_corpus():
    """BOUNDED: the float-valued views bit-for-bit on a corpus with infinite, huge, zero-width and signed-zero edges,
    executed on the real crate and compared with the IEEE evaluation of the formulas in the property statement
    ((lower+upper)/2 etc.).  Catches rewrites that are equal over the reals (invisible to RS) but differ in f64."""
    import math
    import replay
    from common import Obligation, DISCHARGED, REFUTED, UNDECIDED
    inf = float("inf")

    def fdiv(a, b):
        try:
            return a / b
        except ZeroDivisionError:
            if a == 0 or a != a:
                return float("nan")
            return math.copysign(inf, a) * (math.copysign(1.0, b))
    cases = [
        ("H4", [-inf, -1.0, 0.1, 2.5, inf], [-5.0, -0.5, 0.0, 0.05, 1.0, 1.5, 2.5, 100.0]),
        ("H1", [-1e308, 1e308], [0.0, 1e307, -1e307]),
        ("H3", [0.0, 1.0, 1.0, 3.0], [0.5, 1.0, 2.0, 2.5]),
        ("H2", [-1.0, -0.0, 0.5], [-0.5, 0.0, 0.25, -0.0]),
        ("H4", [1e-300, 2e-300, 1.0, 1e300, 1.7e308], [1.5e-300, 0.5, 2.0, 1e305]),
        ("Histogram10", [-inf, -3.0, -1.0, -0.1, 0.0, 0.1, 0.3, 1.0, 7.0, 1e10, inf], [-10.0, -2.0, -0.05, 0.05, 0.2, 0.2, 5.0, 1e11, 0.0]),
        ("H3", [-1.0, 0.1, 0.7, 1.1], [0.0, 0.2, 0.9, 0.95]),
    ]
    progs = []
    for ty, edges, samples in cases:
        L = len(edges) - 1
        progs.append({"type": ty, "ctor": ["from_ranges", edges], "ops": [["add", x] for x in samples],
                      "observe": ["bins", "ranges", "widths", "centers", "normalized_bins", "variances"] + [["variance", i] for i in range(L)]})
    name = "C13.views.bits_corpus"
    fn = "src/traits.rs::Histogram::{widths,centers,normalized_bins,variance,variances} on the real crate"
    bound = "%d histograms (infinite, huge, tiny, zero-width, signed-zero edges), every view item compared bit-for-bit" % len(cases)
    results = replay.run_programs(progs)
    same = lambda a, b: (a != a and b != b) or replay.bits(a) == replay.bits(b)
    for pg, res in zip(progs, results):
        if res.get("error") or res["panic"]:
            return [Obligation(name, fn, "replay+ieee", UNDECIDED if res.get("error") else REFUTED, 0.0,
                               "replay: %s" % (res.get("error") or res["panic"]), cex={"class": {"views": True}, "program": pg}, bounded=bound, kind="bounded")]
        o = res["obs"]
        edges, bins = o["ranges"], o["bins"]
        total = float(sum(bins))
        sum_inv = fdiv(1.0, total)
        for i in range(len(bins)):
            lo, hi, c = edges[i], edges[i + 1], float(bins[i])
            exp = {"widths": hi - lo, "centers": 0.5 * (lo + hi), "normalized_bins": fdiv(c, hi - lo), "variances": c * (1.0 - c * sum_inv)}
            for k, e in exp.items():
                if not same(o[k][i], e):
                    return [Obligation(name, fn, "replay+ieee", REFUTED, 0.0,
                                       "%s[%d] of bin (%r, %r) count %d: got %r, the formula of the statement gives %r" % (k, i, lo, hi, bins[i], o[k][i], e),
                                       cex={"class": {"views": True}, "program": pg, "statistic": "%s[%d]" % (k, i), "expected": repr(e), "actual": repr(o[k][i])},
                                       bounded=bound, kind="bounded")]
            v = o.get("variance(%d)" % i)
            if v is None or not same(v, o["variances"][i]):
                return [Obligation(name, fn, "replay+ieee", REFUTED, 0.0, "variance(%d) = %r differs from variances()[%d] = %r" % (i, v, i, o["variances"][i]),
                                   cex={"class": {"views": True}, "program": pg, "statistic": "variance(%d)" % i, "expected": repr(o["variances"][i]), "actual": repr(v)},
                                   bounded=bound, kind="bounded")]
    return [Obligation(name, fn, "replay+ieee", DISCHARGED, 0.0, "all view items bit-identical to the statement's formulas", bounded=bound, kind="bounded",
                       text="bit-for-bit views on %d histograms" % len(cases))]


def confirm(ob):
    c = ob.cex or {}
    if "mismatch_panics" in ob.name:
        return confirm_mismatch(ob)
    if c.get("program") and c.get("statistic"):
        return {"program": c["program"], "expected": {c["statistic"]: c.get("expected")}, "actual": {c["statistic"]: c.get("actual")},
                "confirmed_on_real_code": True}
    return None


def confirm_mismatch(ob):
    """merge / += of histograms whose edges differ must panic: try edge pairs differing in exactly one position."""
    import re
    import replay
    m = re.search(r"hist(_const)?\[(\d+)\]\.(merge|add_assign)", ob.name)
    if not m:
        return None
    L = int(m.group(2))
    op = "merge" if m.group(3) == "merge" else "add_assign"
    t = {1: "H1", 2: "H2", 3: "H3", 4: "H4", 10: "Histogram10"}.get(L)
    if m.group(1):
        t = "HC%d" % L if L <= 4 else None      # const-generic copy: cargo +nightly replay
    if t is None:
        return None
    base = [float(i) for i in range(L + 1)]
    progs = []
    for k in range(L + 1):
        other = list(base)
        other[k] = base[k] + 0.5 if k == L else base[k] + 0.25
        if sorted(other) != other:
            continue
        progs.append({"type": t, "ctor": ["from_ranges", base], "ops": [["add", 0.5], [op, {"type": t, "ctor": ["from_ranges", other], "ops": [["add", 0.5]]}]],
                      "observe": ["bins"]})
    results = replay.run_programs(progs)
    for pg, res in zip(progs, results):
        if res.get("error"):
            return {"replay_error": res["error"]}
        if not res["panic"]:
            return {"program": pg, "expected": {"behaviour": "panic (edges differ)"}, "actual": {"bins": res["obs"].get("bins"), "panic": None},
                    "confirmed_on_real_code": True}
    return {"confirmed_on_real_code": False, "note": "all %d single-edge mismatches panic on the real crate" % len(progs)}


def run(tier, seed):
    lens = [1, 2, 3, 4] if tier == "quick" else [1, 2, 3, 4, 10]
    job = hist_job("C13", lens, NAMES, unwind=14, timeout=900, harness_timeout=300)
    obs = guarded("C13.engine.job.run@L275", lambda: job.run())
    mul_lens = [1, 2] if tier == "quick" else [1, 2, 3, 4]
    obs += guarded("C13.engine.hist_job@L277", lambda: hist_job("C13", mul_lens, MUL, unwind=14, timeout=1200, harness_timeout=600).run())
    obs += guarded("C13.engine.hist_const_job@L278", lambda: hist_const_job("C13", [1, 3], NAMES, unwind=8).run())           # const-generic copy: both tiers (seconds)
    obs += guarded("C13.engine.structural@L279", lambda: structural("C13"))
    obs += guarded("C13.engine.views_rs@L280", lambda: views_rs(tier))
    obs += guarded("C13.engine.views_bits_corpus@L281", lambda: views_bits_corpus())
    obs += guarded("C13.engine.vl.run_lemmas@L282", lambda: vl.run_lemmas("C13", ["merge_tree", "concat", "swap"]))
    meta = dict(COMMON_META)
    meta.update({
        "level": "proof",
        "checker_cmd": "cargo kani --no-default-features --features std --default-unwind 14 (scratch copy + contracts/kani/histogram.rs); rsx structural check; verus history.rs",
        "functions_under_contract": ["<Histogram as Merge>::merge", "AddAssign<&Histogram>::add_assign", "MulAssign<u64>::mul_assign",
                                     "Histogram::reset", "Histogram::iter", "IntoIterator for &Histogram", "IterHistogram::next",
                                     "Histogram (trait)::variance/variances/widths/centers/normalized_bins",
                                     "IterWidths/IterBinCenters/IterNormalized/IterVariances::next", "traits::multinomial_variance"],
        "source_files": [F, FC, "src/traits.rs", "src/lib.rs"],
        "assumptions": [
            "configurations: LEN in %s, complete per LEN (symbolic valid edges and counts < 2^40, multiplier < 2^20: no u64 overflow)" % lens,
            "mismatch.no_mutation is decided structurally (every assert precedes every write in merge/add_assign), a sufficient condition on the real AST, not by Kani",
            "associativity/commutativity over whole histories: integer vector addition + Verus merge-tree lemma",
            "A-CBMC; A-RUSTC (the &Self operand is immutable)",
            "the bit-level form of the views ((lower+upper)/2 rather than lower+(upper-lower)/2, ...) is exercised only by a BOUNDED corpus (views.bits_corpus); comparing two bit-blasted float computations did not terminate in CBMC",
            "float-valued views (widths, centers, normalized_bins, variance, variances) are decided by RS under exact-real semantics (A-REAL) with the inner iterator abstract; normalized_bins for non-empty bins (lower < upper); variance for a non-empty histogram",
        ],
        "explanation": "state-level bin-wise contracts per operation, bit-equality of every view item with the formula in the property statement.",
    })
    return obs, meta, confirm
