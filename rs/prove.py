"""Obligation bookkeeping for the RS engine."""
import os
import re
import time

import backends
import terms as tm
from terms import T, B, TRUE, FALSE, And, Not, Or, symbols
from common import Obligation, DISCHARGED, REFUTED, UNDECIDED, VERIF, safe_name


def _eval_b(f, m):
    g = tm.subst(f, m)
    return True if g is TRUE else False if g is FALSE else None


def witness(hyps, lhs, rhs, tries=300):
    """Point (integers for counts, small rationals otherwise) satisfying hyps where lhs != rhs."""
    import random
    from fractions import Fraction
    if tm.has_op(lhs, ("ite", "sqrt")) or tm.has_op(rhs, ("ite", "sqrt")):
        return None
    syms = {}
    for h in list(hyps) + [lhs.eq(rhs) if not (lhs.is_num() and rhs.is_num()) else TRUE]:
        symbols(h, syms)
    symbols(lhs, syms)
    symbols(rhs, syms)
    rnd = random.Random(12345)
    for _ in range(tries):
        m = {}
        for name, kind in syms.items():
            if kind in tm.INTS:
                m[name] = T.num(rnd.randint(0, 7), kind)
            else:
                m[name] = T.num(Fraction(rnd.randint(-12, 12), rnd.choice((1, 1, 2, 3))), tm.REAL)
        try:
            if not all(_eval_b(h, m) is True for h in hyps):
                continue
            a, b = tm.subst(lhs, m), tm.subst(rhs, m)
        except ZeroDivisionError:
            continue
        if a.is_num() and b.is_num() and a.value() != b.value():
            return {k: str(v.value()) for k, v in m.items()}
    return None


class Prover:
    def __init__(self, prop, tier, z3_timeout=None):
        self.prop = prop
        self.tier = tier
        self.obs = []
        self.timeout = z3_timeout or (60 if tier == "quick" else 240)
        self.outdir = os.path.join(VERIF, "evidence", "obligations", prop)
        os.makedirs(self.outdir, exist_ok=True)
        self.names = set()

    def _name(self, name):
        full = "%s.%s" % (self.prop, name)
        if full in self.names:
            k = 2
            while "%s#%d" % (full, k) in self.names:
                k += 1
            full = "%s#%d" % (full, k)
        self.names.add(full)
        return full

    def _write(self, full, text, ext):
        try:
            with open(os.path.join(self.outdir, safe_name(full) + ext), "w") as f:
                f.write(text)
        except OSError:
            pass

    def add(self, ob):
        self.obs.append(ob)
        return ob

    # ---- equalities of real terms ----------------------------------------------------------
    def eq(self, name, function, hyps, lhs, rhs, cls=None):
        full = self._name(name)
        text = "hyps: %s\nclaim: %s\n    == %s" % (" && ".join(tm.show(h) for h in hyps)[:1500],
                                                   tm.show(lhs)[:1500], tm.show(rhs)[:1500])
        t0 = time.time()
        if tm.mentions(lhs) or tm.mentions(rhs):
            ok = (lhs == rhs)
            st = DISCHARGED if ok else REFUTED
            return self.add(Obligation(full, function, "syntactic", st, time.time() - t0,
                                       "" if ok else "sentinel mismatch: %s vs %s" % (tm.show(lhs)[:100], tm.show(rhs)[:100]),
                                       cex=None if ok else {"class": cls or {}, "lhs": tm.show(lhs)[:300], "rhs": tm.show(rhs)[:300]},
                                       text=text))
        if backends.sympy_equal(lhs, rhs):
            self._write(full, text, ".sympy.txt")
            return self.add(Obligation(full, function, "sympy", DISCHARGED, time.time() - t0,
                                       "together/expand: numerator of lhs-rhs is the zero polynomial", text=text))
        w = witness(hyps, lhs, rhs)
        if w is not None:
            self._write(full, text + "\nwitness: %s" % w, ".sympy.txt")
            return self.add(Obligation(full, function, "sympy+witness", REFUTED, time.time() - t0,
                                       "lhs - rhs is not the zero rational function; differs at " +
                                       ", ".join("%s=%s" % kv for kv in sorted(w.items()))[:500],
                                       cex={"model": w, "class": cls or {}}, text=text))
        return self._z3(full, function, hyps, lhs.eq(rhs), text, t0, cls)

    # ---- arbitrary formulas -----------------------------------------------------------------
    def holds(self, name, function, hyps, goal, cls=None):
        full = self._name(name)
        text = "hyps: %s\nclaim: %s" % (" && ".join(tm.show(h) for h in hyps)[:1500], tm.show(goal)[:1500])
        t0 = time.time()
        if goal is TRUE:
            return self.add(Obligation(full, function, "syntactic", DISCHARGED, 0.0, "goal folded to true", text=text))
        return self._z3(full, function, hyps, goal, text, t0, cls)

    def _z3(self, full, function, hyps, goal, text, t0, cls):
        backend = "z3-%s QF_NRA" % backends.Z3_VERSION
        hyps = [h for h in hyps if h is not TRUE]
        v, model, dt, smt2 = backends.z3_check(hyps, goal, timeout_s=self.timeout)
        self._write(full, smt2, ".smt2")
        if v == "valid":
            return self.add(Obligation(full, function, backend, DISCHARGED, time.time() - t0, "unsat", text=text))
        if v == "refuted":
            syms = {}
            for h in hyps + [goal]:
                symbols(h, syms)
            if not backends.int_model_ok(model, syms):
                v2, model2, dt2, smt22 = backends.z3_check(hyps, goal, timeout_s=self.timeout, int_as_real=False)
                if v2 == "valid":
                    return self.add(Obligation(full, function, "z3-%s (Int+Real)" % backends.Z3_VERSION, DISCHARGED,
                                               time.time() - t0, "unsat with integer-sorted counts", text=text))
                if v2 != "refuted":
                    return self.add(Obligation(full, function, backend, UNDECIDED, time.time() - t0,
                                               "real relaxation has a non-integral model; integer query: " + v2, text=text))
                model = model2
            cex = {"model": model, "class": cls or {}}
            return self.add(Obligation(full, function, backend, REFUTED, time.time() - t0,
                                       "sat: " + ", ".join("%s=%s" % kv for kv in sorted(model.items()))[:600],
                                       cex=cex, text=text))
        return self.add(Obligation(full, function, backend, UNDECIDED, time.time() - t0,
                                   "z3 returned unknown within %ds" % self.timeout, text=text))

    def all_paths(self, name, function, items, cls=None):
        """One obligation for a family of per-path goals: items = [(hyps, goal)].  Discharged iff every
        path is; refuted by the first path with a model."""
        full = self._name(name)
        t0 = time.time()
        backend = "z3-%s QF_NRA" % backends.Z3_VERSION
        text = "for each of %d paths: path condition ==> goal; e.g. %s" % (
            len(items), (tm.show(items[0][1])[:600] if items else ""))
        unknown = 0
        for k, (hyps, goal) in enumerate(items):
            if goal is TRUE:
                continue
            hyps = [h for h in hyps if h is not TRUE]
            v, model, dt, smt2 = backends.z3_check(hyps, goal, timeout_s=self.timeout)
            if k == 0:
                self._write(full, smt2, ".smt2")
            if v == "refuted":
                syms = {}
                for h in hyps + [goal]:
                    symbols(h, syms)
                if not backends.int_model_ok(model, syms):
                    v2, model2, _, _ = backends.z3_check(hyps, goal, timeout_s=self.timeout, int_as_real=False)
                    if v2 == "valid":
                        continue
                    if v2 != "refuted":
                        unknown += 1
                        continue
                    model = model2
                self._write(full, smt2, ".smt2")
                return self.add(Obligation(full, function, backend, REFUTED, time.time() - t0,
                                           "path %d of %d: sat: %s" % (k, len(items), ", ".join("%s=%s" % kv for kv in sorted(model.items()))[:500]),
                                           cex={"model": model, "class": cls or {}, "path": [tm.show(h)[:120] for h in hyps][:12]}, text=text))
            if v == "unknown":
                unknown += 1
        if unknown:
            return self.add(Obligation(full, function, backend, UNDECIDED, time.time() - t0,
                                       "%d of %d paths undecided (z3 unknown)" % (unknown, len(items)), text=text))
        if not items:
            return self.add(Obligation(full, function, backend, UNDECIDED, 0.0, "no paths", text=text))
        return self.add(Obligation(full, function, backend, DISCHARGED, time.time() - t0,
                                   "unsat on all %d paths" % len(items), text=text))

    def feasible(self, name, function, hyps):
        """Vacuity guard: the hypotheses of an obligation family must be satisfiable."""
        full = self._name(name)
        t0 = time.time()
        r = backends.z3_sat([h for h in hyps if h is not TRUE])
        st = DISCHARGED if r == "sat" else UNDECIDED
        return self.add(Obligation(full, function, "z3-%s QF_NRA" % backends.Z3_VERSION, st, time.time() - t0,
                                   "hypotheses " + r, kind="vacuity",
                                   text="satisfiable: " + " && ".join(tm.show(h) for h in hyps)[:800]))

    def sides(self, prefix, function, paths, extra_hyps=()):
        """Side obligations collected during execution: non-zero denominators, sqrt/powf domains,
        unsigned subtraction, debug_assert!, conversions."""
        seen = set()
        for pi, p in enumerate(paths):
            for (kind, cond, ln, txt, pc) in p.side:
                key = (kind, ln, cond.key(), tuple(c.key() for c in pc))
                if key in seen:
                    continue
                seen.add(key)
                self.holds("%s.%s@L%s" % (prefix, {"div": "no_div0", "domain": "domain", "underflow": "no_underflow",
                                                   "debug_assert": "debug_assert", "conv": "conv"}.get(kind, kind), ln),
                           function, list(extra_hyps) + pc, cond, cls={"kind": kind, "line": ln})

    def no_panic(self, name, function, paths, allowed=lambda p: False):
        for p in paths:
            if p.panic and not allowed(p):
                full = self._name(name)
                # a panic path is reachable iff its path condition is satisfiable
                r = backends.z3_sat(p.pc)
                if r == "unsat":
                    continue
                st = REFUTED if r == "sat" else UNDECIDED
                self.add(Obligation(full, function, "z3-%s QF_NRA" % backends.Z3_VERSION, st, 0.0,
                                    "panic reachable: %s at line %s under %s" % (p.panic[0], p.panic[1],
                                                                               " && ".join(tm.show(c) for c in p.pc)[:400]),
                                    cex={"class": {"panic": True}, "path": [tm.show(c) for c in p.pc][:20]},
                                    text="no panic on any path of " + function))
                return
        full = self._name(name)
        self.add(Obligation(full, function, "rs-executor", DISCHARGED, 0.0,
                            "%d paths, no reachable panic" % len(paths), text="no panic on any path of " + function))
