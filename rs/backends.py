"""Back ends of the RS engine: sympy normal forms for identities, z3 5.1 (QF_NRA / nlsat) for
everything with inequalities, case conditions, square roots or ite."""
import time
from fractions import Fraction

import sympy as sp
import z3

from terms import T, B, TRUE, FALSE, INT, UINT, INTS, REAL, And, Not, Or, symbols, has_op, show

Z3_VERSION = z3.get_version_string()


# ------------------------------------------------------------------------------------ sympy
_sym_cache = {}


def _ssym(name):
    if name not in _sym_cache:
        _sym_cache[name] = sp.Symbol(name)
    return _sym_cache[name]


class SqrtF(sp.Function):
    """opaque square root (no automatic simplification)"""
    nargs = 1


def to_sympy(t):
    if t.op == "num":
        f = t.value()
        return sp.Rational(f.numerator, f.denominator)
    if t.op == "sym":
        return _ssym(t.args[0])
    if t.op == "add":
        return to_sympy(t.args[0]) + to_sympy(t.args[1])
    if t.op == "sub":
        return to_sympy(t.args[0]) - to_sympy(t.args[1])
    if t.op == "mul":
        return to_sympy(t.args[0]) * to_sympy(t.args[1])
    if t.op == "div":
        return to_sympy(t.args[0]) / to_sympy(t.args[1])
    if t.op == "neg":
        return -to_sympy(t.args[0])
    if t.op == "pow":
        return to_sympy(t.args[0]) ** t.args[1]
    if t.op == "sqrt":
        return SqrtF(sp.factor(sp.together(to_sympy(t.args[0]))))
    raise ValueError("no sympy form for " + t.op)


def sympy_equal(a, b):
    """True iff a - b normalises to the zero rational function (complete for identities)."""
    if has_op(a, ("ite",)) or has_op(b, ("ite",)):
        return False
    try:
        d = sp.together(to_sympy(a) - to_sympy(b))
        num, den = sp.fraction(d)
        return sp.expand(num) == 0
    except Exception:
        return False


def rational_form(t):
    """(numerator, denominator) sympy polynomials of a term without ite; sqrt stays opaque."""
    d = sp.together(to_sympy(t))
    return sp.fraction(d)


# --------------------------------------------------------------------------------------- z3
class Z3Ctx:
    """Translation context: symbols, sqrt definitions and division side conditions."""

    def __init__(self, int_as_real=True):
        self.vars = {}
        self.sqrts = {}
        self.side = []       # definitional constraints (sqrt)
        self.int_as_real = int_as_real
        self.has_int = False

    def var(self, name, kind):
        import terms as _tm
        if name in _tm.INT_SYMS:
            kind = _tm.INT_SYMS[name]
        if name not in self.vars:
            if name in _tm.STRICT_INTS:
                self.vars[name] = z3.Int(name)
                self.has_int = True
            elif kind in INTS and not self.int_as_real:
                self.vars[name] = z3.Int(name)
            else:
                self.vars[name] = z3.Real(name)
        return self.vars[name]

    def term(self, t):
        if t.op == "num":
            f = t.value()
            return z3.RealVal(str(f.numerator)) / z3.RealVal(str(f.denominator)) if f.denominator != 1 \
                else z3.RealVal(str(f.numerator))
        if t.op == "sym":
            v = self.var(t.args[0], t.kind)
            return z3.ToReal(v) if z3.is_int(v) else v
        if t.op == "add":
            return self.term(t.args[0]) + self.term(t.args[1])
        if t.op == "sub":
            return self.term(t.args[0]) - self.term(t.args[1])
        if t.op == "mul":
            return self.term(t.args[0]) * self.term(t.args[1])
        if t.op == "div":
            return self.term(t.args[0]) / self.term(t.args[1])
        if t.op == "neg":
            return -self.term(t.args[0])
        if t.op == "pow":
            b = self.term(t.args[0])
            r = b
            for _ in range(t.args[1] - 1):   # never z3 Power: it is treated as an opaque function
                r = r * b
            return r
        if t.op == "sqrt":
            k = t.args[0].key()
            if k not in self.sqrts:
                r = z3.Real("sqrt!%d" % len(self.sqrts))
                a = self.term(t.args[0])
                self.sqrts[k] = r
                self.side.append(z3.And(r >= 0, r * r == a))
            return self.sqrts[k]
        if t.op == "ite":
            return z3.If(self.formula(t.args[0]), self.term(t.args[1]), self.term(t.args[2]))
        raise ValueError(t.op)

    def formula(self, f):
        if f is TRUE or f.op == "true":
            return z3.BoolVal(True)
        if f is FALSE or f.op == "false":
            return z3.BoolVal(False)
        if f.op == "cmp":
            op, a, b = f.args
            x, y = self.term(a), self.term(b)
            return {"<": x < y, "<=": x <= y, ">": x > y, ">=": x >= y, "==": x == y, "!=": x != y}[op]
        if f.op == "not":
            return z3.Not(self.formula(f.args[0]))
        if f.op == "and":
            return z3.And(*[self.formula(a) for a in f.args])
        if f.op == "or":
            return z3.Or(*[self.formula(a) for a in f.args])
        raise ValueError(f.op)


def _model_dict(m, ctx):
    out = {}
    for name, v in ctx.vars.items():
        val = m.eval(v, model_completion=True)
        try:
            if z3.is_rational_value(val) or z3.is_int_value(val):
                out[name] = str(val.as_fraction()) if z3.is_rational_value(val) else str(val.as_long())
            else:
                out[name] = val.as_decimal(20) if hasattr(val, "as_decimal") else str(val)
        except Exception:
            out[name] = str(val)
    return out


def z3_check(hyps, goal, timeout_s=60, int_as_real=True):
    """Validity of  /\\ hyps  ==>  goal.   Returns (verdict, model|None, seconds, smt2)
    verdict: 'valid' | 'refuted' | 'unknown'."""
    ctx = Z3Ctx(int_as_real=int_as_real)
    hs = [ctx.formula(h) for h in hyps]
    g = ctx.formula(goal)
    s = z3.SolverFor("QF_NRA") if (int_as_real and not ctx.has_int) else z3.Solver()
    s.set("timeout", int(timeout_s * 1000))
    for h in hs:
        s.add(h)
    for c in ctx.side:
        s.add(c)
    s.add(z3.Not(g))
    t0 = time.time()
    r = s.check()
    dt = time.time() - t0
    smt2 = s.to_smt2()
    if r == z3.unsat:
        return "valid", None, dt, smt2
    if r == z3.sat:
        return "refuted", _model_dict(s.model(), ctx), dt, smt2
    return "unknown", None, dt, smt2


def z3_sat(hyps, timeout_s=20):
    """Satisfiability of the hypotheses (vacuity guard / path feasibility): 'sat'|'unsat'|'unknown'."""
    ctx = Z3Ctx()
    fs = [ctx.formula(h) for h in hyps]
    s = z3.SolverFor("QF_NRA") if not ctx.has_int else z3.Solver()
    s.set("timeout", int(timeout_s * 1000))
    for f in fs:
        s.add(f)
    for c in ctx.side:
        s.add(c)
    r = s.check()
    return "sat" if r == z3.sat else "unsat" if r == z3.unsat else "unknown"


def int_model_ok(model, hyps_goal_symbols):
    """Every int-kinded symbol has an integral value in the model."""
    for name, kind in hyps_goal_symbols.items():
        if kind in INTS and name in model:
            try:
                if Fraction(model[name]).denominator != 1:
                    return False
            except Exception:
                return False
    return True
