"""Textbook statistics as functions of an abstract summary (DESIGN.md 4.1 / 4.2).
Written from the property statements, not from the code."""
from fractions import Fraction
from math import comb

import terms as tm
from terms import T, UINT, REAL, real


class PowerSums:
    """P = (n, S1..SN): S_j = sum of x_i^j over the multiset."""

    def __init__(self, n, S):
        self.n = n            # term (UINT kind when symbolic)
        self.S = list(S)      # S[0] is S1

    @staticmethod
    def symbolic(tag, order):
        return PowerSums(T.sym("n" + tag, UINT), [T.sym("S%d%s" % (j, tag)) for j in range(1, order + 1)])

    @staticmethod
    def empty(order):
        return PowerSums(T.num(0, UINT), [T.num(0, REAL) for _ in range(order)])

    @property
    def order(self):
        return len(self.S)

    def s(self, j):
        return real(self.n) if j == 0 else self.S[j - 1]

    def push(self, x):
        return PowerSums(self.n + 1, [self.S[j - 1] + x ** j for j in range(1, self.order + 1)])

    def plus(self, o):
        return PowerSums(self.n + o.n, [a + b for a, b in zip(self.S, o.S)])

    def mean(self):
        return self.S[0] / real(self.n)

    def M(self, p):
        """sum_i (x_i - mean)^p  =  sum_j C(p,j) (-mean)^(p-j) S_j"""
        mu = self.mean()
        tot = T.num(0, REAL)
        for j in range(0, p + 1):
            tot = tot + T.num(comb(p, j), REAL) * ((-mu) ** (p - j)) * self.s(j)
        return tot

    def symbols(self):
        return [self.n] + self.S


# accessor specifications over (n, M2, M3, M4, ...) given as terms -------------------------------
def population_variance(n, M2):
    return M2 / real(n)


def sample_variance(n, M2):
    return M2 / (real(n) - 1)


def variance_of_mean(n, M2):
    return M2 / ((real(n) - 1) * real(n))


def central_moment(n, Mp):
    return Mp / real(n)
