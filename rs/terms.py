"""Term layer of the RS engine: exact-real / unbounded-integer expressions and boolean formulas,
convertible to sympy (normal forms) and to z3 (QF_NRA).  Constants are folded with Fractions so
that concrete integer computations (loop bounds, binomials, indices) stay concrete."""
from fractions import Fraction
import itertools

REAL, INT, UINT = "real", "int", "uint"
INTS = (INT, UINT)
STRICT_INTS = set()   # integer symbols that are never relaxed to reals in solver queries
INT_SYMS = {}   # names ever created with an integer kind (real(.) views keep the name)


class T:
    __slots__ = ("op", "args", "kind", "_h")

    def __init__(self, op, args, kind=REAL):
        self.op = op
        self.args = args
        self.kind = kind
        self._h = None

    # ---- construction helpers -----------------------------------------------------------
    @staticmethod
    def num(v, kind=None):
        f = Fraction(v)
        if kind is None:
            kind = INT if f.denominator == 1 and isinstance(v, int) else REAL
        return T("num", (f,), kind)

    @staticmethod
    def sym(name, kind=REAL, strict=False):
        if kind in INTS:
            INT_SYMS[name] = kind
            if strict:
                STRICT_INTS.add(name)
        return T("sym", (name,), kind)

    def is_num(self):
        return self.op == "num"

    def value(self):
        return self.args[0]

    def key(self):
        if self._h is None:
            self._h = (self.op,) + tuple(a.key() if isinstance(a, (T, B)) else a for a in self.args)
        return self._h

    def __hash__(self):
        return hash(self.key())

    def __eq__(self, other):  # structural
        return isinstance(other, T) and self.key() == other.key()

    def __repr__(self):
        return show(self)

    # ---- arithmetic -----------------------------------------------------------------------
    def _k(self, o):
        if self.kind in INTS and o.kind in INTS:
            return UINT if UINT in (self.kind, o.kind) else INT
        return REAL

    def __add__(self, o):
        o = lift(o)
        if self.is_num() and o.is_num():
            return T("num", (self.value() + o.value(),), self._k(o))
        if self.is_num() and self.value() == 0:
            return T(o.op, o.args, self._k(o))
        if o.is_num() and o.value() == 0:
            return T(self.op, self.args, self._k(o))
        return T("add", (self, o), self._k(o))

    __radd__ = lambda self, o: lift(o).__add__(self)

    def __sub__(self, o):
        o = lift(o)
        if self.is_num() and o.is_num():
            return T("num", (self.value() - o.value(),), self._k(o))
        if o.is_num() and o.value() == 0:
            return T(self.op, self.args, self._k(o))
        return T("sub", (self, o), self._k(o))

    __rsub__ = lambda self, o: lift(o).__sub__(self)

    def __mul__(self, o):
        o = lift(o)
        if self.is_num() and o.is_num():
            return T("num", (self.value() * o.value(),), self._k(o))
        return T("mul", (self, o), self._k(o))

    __rmul__ = lambda self, o: lift(o).__mul__(self)

    def __truediv__(self, o):
        o = lift(o)
        if self.is_num() and o.is_num() and o.value() != 0:
            return T("num", (self.value() / o.value(),), REAL)
        return T("div", (self, o), REAL)

    __rtruediv__ = lambda self, o: lift(o).__truediv__(self)

    def __neg__(self):
        if self.is_num():
            return T("num", (-self.value(),), self.kind)
        return T("neg", (self,), self.kind)

    def __pow__(self, k):
        assert isinstance(k, int) and k >= 0
        if self.is_num():
            return T("num", (self.value() ** k,), self.kind)
        if k == 0:
            return T.num(1, self.kind)
        if k == 1:
            return self
        return T("pow", (self, k), self.kind)

    # comparisons build formulas
    def lt(self, o): return cmp("<", self, lift(o))
    def le(self, o): return cmp("<=", self, lift(o))
    def gt(self, o): return cmp(">", self, lift(o))
    def ge(self, o): return cmp(">=", self, lift(o))
    def eq(self, o): return cmp("==", self, lift(o))
    def ne(self, o): return cmp("!=", self, lift(o))


def lift(x):
    if isinstance(x, T):
        return x
    if isinstance(x, bool):
        raise TypeError("bool is not a term")
    if isinstance(x, int):
        return T.num(x, INT)
    if isinstance(x, Fraction):
        return T.num(x, REAL)
    if isinstance(x, float):
        return T.num(Fraction(x), REAL)
    raise TypeError("cannot lift %r" % (x,))


def real(x):
    """View an int-kinded term as a real (u64 -> f64 conversion, exact under A-INT)."""
    x = lift(x)
    if x.kind == REAL:
        return x
    return T(x.op, x.args, REAL)


def sqrt(x):
    x = lift(x)
    if x.is_num() and x.value() >= 0:
        f = x.value()
        import math
        n, d = f.numerator, f.denominator
        rn, rd = math.isqrt(n), math.isqrt(d)
        if rn * rn == n and rd * rd == d:
            return T.num(Fraction(rn, rd), REAL)
    return T("sqrt", (x,), REAL)


def ite(c, a, b):
    a, b = lift(a), lift(b)
    if c is TRUE:
        return a
    if c is FALSE:
        return b
    if a == b:
        return a
    return T("ite", (c, a, b), a.kind if a.kind == b.kind else REAL)


NAN = T.sym("NAN")
INF = T.sym("INF")


def mentions(t, names=("NAN", "INF")):
    if isinstance(t, T):
        if t.op == "sym":
            return t.args[0] in names
        return any(mentions(a, names) for a in t.args if isinstance(a, (T, B)))
    if isinstance(t, B):
        return any(mentions(a, names) for a in t.args if isinstance(a, (T, B)))
    return False


# ---------------------------------------------------------------------------------------------
class B:
    """Boolean formula."""
    __slots__ = ("op", "args", "_h")

    def __init__(self, op, args):
        self.op = op
        self.args = args
        self._h = None

    def key(self):
        if self._h is None:
            self._h = ("B", self.op) + tuple(a.key() if isinstance(a, (T, B)) else a for a in self.args)
        return self._h

    def __hash__(self):
        return hash(self.key())

    def __eq__(self, o):
        return isinstance(o, B) and self.key() == o.key()

    def __repr__(self):
        return show(self)


TRUE = B("true", ())
FALSE = B("false", ())

_CMP = {"<": lambda a, b: a < b, "<=": lambda a, b: a <= b, ">": lambda a, b: a > b,
        ">=": lambda a, b: a >= b, "==": lambda a, b: a == b, "!=": lambda a, b: a != b}
_NEG = {"<": ">=", "<=": ">", ">": "<=", ">=": "<", "==": "!=", "!=": "=="}


def cmp(op, a, b):
    if a.is_num() and b.is_num():
        return TRUE if _CMP[op](a.value(), b.value()) else FALSE
    if a == b:
        return TRUE if op in ("<=", ">=", "==") else FALSE
    return B("cmp", (op, a, b))


def Not(x):
    if x is TRUE:
        return FALSE
    if x is FALSE:
        return TRUE
    if x.op == "cmp":
        return B("cmp", (_NEG[x.args[0]], x.args[1], x.args[2]))
    if x.op == "not":
        return x.args[0]
    return B("not", (x,))


def And(*xs):
    out = []
    for x in xs:
        if x is FALSE:
            return FALSE
        if x is TRUE:
            continue
        out.append(x)
    if not out:
        return TRUE
    if len(out) == 1:
        return out[0]
    return B("and", tuple(out))


def Or(*xs):
    out = []
    for x in xs:
        if x is TRUE:
            return TRUE
        if x is FALSE:
            continue
        out.append(x)
    if not out:
        return FALSE
    if len(out) == 1:
        return out[0]
    return B("or", tuple(out))


def Implies(a, b):
    return Or(Not(a), b)


# ---------------------------------------------------------------------------------------------
def show(t, depth=0):
    if isinstance(t, T):
        if t.op == "num":
            f = t.value()
            return str(f.numerator) if f.denominator == 1 else "(%d/%d)" % (f.numerator, f.denominator)
        if t.op == "sym":
            return t.args[0]
        if t.op in ("add", "sub", "mul", "div"):
            s = {"add": "+", "sub": "-", "mul": "*", "div": "/"}[t.op]
            return "(%s %s %s)" % (show(t.args[0]), s, show(t.args[1]))
        if t.op == "neg":
            return "(-%s)" % show(t.args[0])
        if t.op == "pow":
            return "%s^%d" % (show(t.args[0]), t.args[1])
        if t.op == "sqrt":
            return "sqrt(%s)" % show(t.args[0])
        if t.op == "ite":
            return "ite(%s, %s, %s)" % (show(t.args[0]), show(t.args[1]), show(t.args[2]))
    if isinstance(t, B):
        if t.op == "true":
            return "true"
        if t.op == "false":
            return "false"
        if t.op == "cmp":
            return "(%s %s %s)" % (show(t.args[1]), t.args[0], show(t.args[2]))
        if t.op == "not":
            return "!(%s)" % show(t.args[0])
        return "(" + (" && " if t.op == "and" else " || ").join(show(a) for a in t.args) + ")"
    return str(t)


def symbols(t, acc=None):
    if acc is None:
        acc = {}
    if isinstance(t, T):
        if t.op == "sym":
            if t.args[0] in INT_SYMS:
                acc[t.args[0]] = INT_SYMS[t.args[0]]
            elif t.kind in INTS or t.args[0] not in acc:
                acc[t.args[0]] = t.kind
        else:
            for a in t.args:
                if isinstance(a, (T, B)):
                    symbols(a, acc)
    elif isinstance(t, B):
        for a in t.args:
            if isinstance(a, (T, B)):
                symbols(a, acc)
    return acc


def has_op(t, ops):
    if isinstance(t, (T, B)):
        if t.op in ops:
            return True
        return any(has_op(a, ops) for a in t.args if isinstance(a, (T, B)))
    return False


def subst(t, m):
    """Substitute symbols by terms (m: name -> T)."""
    if isinstance(t, T):
        if t.op == "sym":
            return m.get(t.args[0], t)
        if t.op == "num":
            return t
        a = [subst(x, m) if isinstance(x, (T, B)) else x for x in t.args]
        if t.op == "add": return a[0] + a[1]
        if t.op == "sub": return a[0] - a[1]
        if t.op == "mul": return a[0] * a[1]
        if t.op == "div": return a[0] / a[1]
        if t.op == "neg": return -a[0]
        if t.op == "pow": return a[0] ** a[1]
        if t.op == "sqrt": return sqrt(a[0])
        if t.op == "ite": return ite(a[0], a[1], a[2])
        raise ValueError(t.op)
    if isinstance(t, B):
        if t.op in ("true", "false"):
            return t
        if t.op == "cmp":
            return cmp(t.args[0], subst(t.args[1], m), subst(t.args[2], m))
        if t.op == "not":
            return Not(subst(t.args[0], m))
        if t.op == "and":
            return And(*[subst(x, m) for x in t.args])
        if t.op == "or":
            return Or(*[subst(x, m) for x in t.args])
    return t
