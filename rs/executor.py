"""RS executor: path-based symbolic execution of the real function bodies (syn AST from rsx)
under exact-real semantics.  See DESIGN.md section 3.2 and Appendix A for the subset.

Paths are enumerated by re-execution under a decision prefix (no state copying): a branch whose
condition is not decided by the path condition consumes the next decision, or, when the prefix is
exhausted, aborts the run and schedules both extensions.
"""
import copy
import json
import os
import subprocess
from fractions import Fraction

from common import RSX, REPO, Undecided
import terms as tm
from terms import T, B, TRUE, FALSE, INT, UINT, INTS, REAL, And, Not, Or, lift, real
import backends


class Unsupported(Undecided):
    pass


class NeedDecision(Exception):
    pass


class ReturnSig(Exception):
    def __init__(self, v):
        self.v = v


class BreakSig(Exception):
    pass


class ContinueSig(Exception):
    pass


class PanicSig(Exception):
    def __init__(self, why, ln):
        self.why = why
        self.ln = ln


class Struct(dict):
    def __init__(self, ty, fields):
        super().__init__(fields)
        self.ty = ty


class Arr(list):
    pass


class Ref:
    def __init__(self, obj, lo=None, hi=None):
        self.obj = obj   # Struct | Arr | Place
        self.lo = lo     # slice bounds for &mut a[..k]
        self.hi = hi


class Place:
    def __init__(self, cont, key):
        self.cont = cont
        self.key = key

    def get(self):
        return self.cont[self.key]

    def set(self, v):
        self.cont[self.key] = v


class Opt:
    def __init__(self, v, some):
        self.v = v
        self.some = some


class AbsIter:
    """Abstract inner iterator (A-LIB): yields the given items in order, then None."""
    def __init__(self, items):
        self.items = list(items)

    def next(self):
        if self.items:
            return Opt(self.items.pop(0), True)
        return Opt(None, False)


class ListIter:
    """slice.iter() / iter_mut() [.enumerate()]: concrete length, symbolic elements."""
    def __init__(self, arr, lo, hi, mutable, enumerate_=False):
        self.arr, self.lo, self.hi, self.mutable, self.enum = arr, lo, hi, mutable, enumerate_


class ZipIter:
    def __init__(self, a, b):
        self.a, self.b = a, b


class Closure:
    def __init__(self, params, body, frame):
        self.params, self.body, self.frame = params, body, frame


class RangeV:
    def __init__(self, lo, hi, incl):
        self.lo, self.hi, self.incl = lo, hi, incl


UNIT = ()


def dcopy(v):
    if isinstance(v, Struct):
        return Struct(v.ty, {k: dcopy(x) for k, x in v.items()})
    if isinstance(v, Arr):
        return Arr([dcopy(x) for x in v])
    if isinstance(v, tuple):
        return tuple(dcopy(x) for x in v)
    return v


# ------------------------------------------------------------------------------------------
class Crate:
    """Function / struct tables extracted from /repo by rsx on every run."""

    def __init__(self):
        self.fns = {}       # (type or None, name) -> (fn ast, file)
        self.structs = {}   # name -> [(field, type string)]
        self.aliases = {}
        self.consts = {}
        self.files = []

    def _rsx(self, args):
        p = subprocess.run([RSX] + args, stdout=subprocess.PIPE, stderr=subprocess.PIPE, text=True)
        if p.returncode != 0:
            raise Undecided("rsx %s failed: %s" % (" ".join(args), p.stderr.strip()))
        return json.loads(p.stdout)

    def load_file(self, rel):
        ast = self._rsx(["parse", os.path.join(REPO, rel)])
        self.files.append(rel)
        self._index(ast["items"], rel)

    def load_macro(self, rel, macro, subst):
        ast = self._rsx(["expand", os.path.join(REPO, rel), macro] + ["%s=%s" % kv for kv in subst.items()])
        if rel not in self.files:
            self.files.append(rel)
        self._index(ast["items"], rel + "::" + macro + "!")

    def _index(self, items, where):
        for it in items:
            k = it["k"]
            if k == "impl":
                ty = it["target"].replace(" ", "")
                if "<" in ty and not ty.startswith("&"):
                    ty = ty[:ty.index("<")]      # generic impls (IterWidths<T>): keyed by the type constructor
                for f in it["items"]:
                    if f["k"] == "fn":
                        f["_impl_trait"] = it.get("trait")
                        self.fns[(ty, f["name"])] = (f, where)
            elif k == "fn":
                self.fns[(None, it["name"])] = (it, where)
            elif k == "struct_def":
                self.structs[it["name"]] = [(f["name"], f["ty"]) for f in it["fields"]]
            elif k == "type":
                self.aliases[it["name"]] = it["ty"].replace(" ", "")
            elif k == "const":
                self.consts[it["name"]] = it
            elif k == "mod" and it.get("items"):
                self._index(it["items"], where)
            elif k == "trait":
                for f in it["items"]:
                    if f["k"] == "fn" and f.get("body"):
                        self.fns[("trait:" + it["name"], f["name"])] = (f, where)

    def resolve_ty(self, name):
        seen = 0
        while name in self.aliases and seen < 5:
            name = self.aliases[name]
            seen += 1
        return name

    def fn(self, ty, name):
        ty = self.resolve_ty(ty) if ty else ty
        if (ty, name) not in self.fns:
            raise Undecided("lost anchor: fn %s::%s not found in /repo" % (ty, name))
        return self.fns[(ty, name)]

    def mk(self, ty, **fields):
        """Build a struct value; field names are checked against the parsed struct (lost anchor otherwise)."""
        ty = self.resolve_ty(ty)
        if ty not in self.structs:
            raise Undecided("lost anchor: struct %s not found" % ty)
        names = [f for f, _ in self.structs[ty]]
        if sorted(names) != sorted(fields):
            raise Undecided("lost anchor: struct %s has fields %s, contract expects %s" % (ty, names, sorted(fields)))
        return Struct(ty, fields)


class Path:
    def __init__(self):
        self.pc = []          # list[B]
        self.side = []        # (kind, B formula that must hold, ln, text)
        self.result = None
        self.panic = None     # (why, ln)
        self.state = None     # dict of named roots after execution
        self.decisions = []


class Exec:
    def __init__(self, crate, z3_timeout=10):
        self.crate = crate
        self.z3_timeout = z3_timeout
        self.fresh = 0
        self._implied_cache = {}

    # ---- path enumeration -----------------------------------------------------------------
    def run(self, build, body, max_paths=4000):
        """build(): -> (roots dict, initial pc list).  body(ex, roots) executes and returns result.
        Returns list[Path]."""
        work = [[]]
        paths = []
        while work:
            prefix = work.pop()
            self.path = Path()
            self.decisions = list(prefix)
            self.dpos = 0
            self.fresh = 0
            roots, pc0 = build()
            self.path.pc = list(pc0)
            try:
                try:
                    self.path.result = body(self, roots)
                except PanicSig as p:
                    self.path.panic = (p.why, p.ln)
                self.path.state = roots
                self.path.decisions = list(prefix)
                paths.append(self.path)
            except NeedDecision:
                work.append(prefix + [False])
                work.append(prefix + [True])
            if len(paths) + len(work) > max_paths:
                raise Undecided("path explosion (> %d paths)" % max_paths)
        return paths

    def implied(self, cond):
        """True / False if the path condition decides cond, else None."""
        if cond is TRUE:
            return True
        if cond is FALSE:
            return False
        key = (tuple(c.key() for c in self.path.pc), cond.key())
        if key in self._implied_cache:
            return self._implied_cache[key]
        r = None
        v, _, _, _ = backends.z3_check(self.path.pc, cond, timeout_s=self.z3_timeout)
        if v == "valid":
            r = True
        else:
            v2, _, _, _ = backends.z3_check(self.path.pc, Not(cond), timeout_s=self.z3_timeout)
            if v2 == "valid":
                r = False
        self._implied_cache[key] = r
        return r

    def decide(self, cond, ln=None):
        r = self.implied(cond)
        if r is None:
            if self.dpos < len(self.decisions):
                r = self.decisions[self.dpos]
                self.dpos += 1
            else:
                raise NeedDecision()
            self.path.pc.append(cond if r else Not(cond))
        return r

    def assume(self, cond):
        if cond is not TRUE:
            self.path.pc.append(cond)

    def oblige(self, kind, cond, ln, text=""):
        """Side obligation: must hold on this path; it is proved separately and then assumed."""
        if cond is TRUE:
            return
        self.path.side.append((kind, cond, ln, text, list(self.path.pc)))
        self.path.pc.append(cond)

    def new_sym(self, base, kind=REAL):
        self.fresh += 1
        return T.sym("%s!%d" % (base, self.fresh), kind, strict=(kind in INTS))

    # ---- calls ----------------------------------------------------------------------------
    def call(self, ty, name, recv, args):
        rty = self.crate.resolve_ty(ty) if ty else ty
        self.depth = getattr(self, "depth", 0) + 1
        try:
            h = getattr(self, "contracts", {}).get((rty, name))
            if h is not None and self.depth > 1:
                # modular mode: the callee is represented by its CONTRACT (requires checked, state havocked, ensures assumed)
                return h(self, recv, args)
            return self._call_body(ty, name, recv, args)
        finally:
            self.depth -= 1

    def _call_body(self, ty, name, recv, args):
        fn, where = self.crate.fn(ty, name)
        frame = {}
        if fn["self"] is not None:
            frame["self"] = recv
        if len(fn["params"]) != len(args):
            raise Unsupported("arity mismatch calling %s::%s" % (ty, name))
        for p, a in zip(fn["params"], args):
            self.bind(frame, p["pat"], a)
        frame["$ty"] = self.crate.resolve_ty(ty) if ty else None
        try:
            v = self.block(fn["body"], frame)
        except ReturnSig as r:
            v = r.v
        return v

    def exec_stmts(self, stmts, frame):
        """Execute a slice of a function body (stage-wise contracts): returns the frame."""
        try:
            for s in stmts:
                self.stmt(s, frame)
        except ReturnSig:
            pass
        return frame

    def bind(self, frame, pat, v):
        k = pat["k"]
        if k == "pident":
            frame[pat["name"]] = v
        elif k == "pwild":
            pass
        elif k == "pref":
            if isinstance(v, Ref):
                v = self.deref(v)
            self.bind(frame, pat["pat"], dcopy(v))
        elif k == "ptuple":
            if not isinstance(v, tuple) or len(v) != len(pat["elems"]):
                raise Unsupported("tuple pattern mismatch")
            for p, x in zip(pat["elems"], v):
                self.bind(frame, p, x)
        else:
            raise Unsupported("pattern %s" % k)

    def deref(self, r):
        if isinstance(r, Ref):
            o = r.obj
            if isinstance(o, Place):
                return o.get()
            return o
        return r

    # ---- statements -------------------------------------------------------------------------
    def block(self, blk, frame):
        v = UNIT
        stmts = blk["stmts"]
        for i, s in enumerate(stmts):
            r = self.stmt(s, frame)
            if i == len(stmts) - 1 and s["k"] == "expr" and not s["semi"]:
                v = r
        return v

    def stmt(self, s, frame):
        k = s["k"]
        if k == "local":
            if s["init"] is None:
                if s["pat"]["k"] == "pident":
                    frame[s["pat"]["name"]] = None
                return UNIT
            v = self.expr(s["init"], frame)
            if not isinstance(v, Ref):
                v = dcopy(v)
            if s.get("ty") and isinstance(v, T):
                v = self.coerce(v, s["ty"])
            self.bind(frame, s["pat"], v)
            return UNIT
        if k == "expr":
            return self.expr(s["e"], frame)
        if k == "item":
            if s["item"]["k"] in ("use", "other"):
                return UNIT
            raise Unsupported("item statement %s at line %s" % (s["item"]["k"], s.get("ln")))
        raise Unsupported("statement %s" % k)

    def coerce(self, v, ty):
        ty = ty.replace(" ", "")
        if ty == "f64" and v.kind in INTS:
            return real(v)
        if ty in ("u64", "usize") and v.kind == INT:
            return T(v.op, v.args, UINT)
        return v

    # ---- places ---------------------------------------------------------------------------
    def place(self, e, frame):
        k = e["k"]
        if k == "path" and len(e["segs"]) == 1:
            name = e["segs"][0]
            if name in frame:
                v = frame[name]
                if isinstance(v, Ref) and isinstance(v.obj, Place):
                    return v.obj
                return Place(frame, name)
            raise Unsupported("unknown variable %s at line %s" % (name, e.get("ln")))
        if k == "field":
            base = self.lvalue_obj(e["base"], frame)
            if not isinstance(base, Struct) or e["name"] not in base:
                raise Undecided("lost anchor: field %s at line %s" % (e["name"], e.get("ln")))
            return Place(base, e["name"])
        if k == "index":
            base = self.lvalue_obj(e["base"], frame)
            idx = self.expr(e["idx"], frame)
            if isinstance(base, Ref) and base.lo is not None:
                off = base.lo
                base = self.deref(base)
            else:
                off = 0
            if not isinstance(base, Arr):
                raise Unsupported("indexing a non-array at line %s" % e.get("ln"))
            i = self.concretize(idx, len(base) - off, e.get("ln"))
            return Place(base, i + off)
        if k == "unary" and e["op"] == "*":
            v = self.expr(e["e"], frame)
            if isinstance(v, Ref):
                if isinstance(v.obj, Place):
                    return v.obj
                return ("whole", v.obj)
            if isinstance(v, (Struct, Arr)):
                return ("whole", v)
            # *r where r is a by-value copy bound from a reference pattern
            return self.place(e["e"], frame)
        raise Unsupported("place expression %s at line %s" % (k, e.get("ln")))

    def lvalue_obj(self, e, frame):
        """Evaluate e to the object it denotes (no copy), following references."""
        v = self.expr(e, frame, want_obj=True)
        if isinstance(v, Ref) and v.lo is None:
            v = self.deref(v)
        return v

    def concretize(self, idx, n, ln):
        """Array index: concrete, or enumerated by decisions idx == k (k < n); otherwise a panic path."""
        if not isinstance(idx, T):
            raise Unsupported("index value at line %s" % ln)
        if idx.is_num():
            i = idx.value()
            if i.denominator != 1 or i < 0 or i >= n:
                raise PanicSig("index out of bounds: %s (len %d)" % (i, n), ln)
            return int(i)
        for k in range(n):
            if self.decide(idx.eq(T.num(k, INT)), ln):
                return k
        raise PanicSig("index out of bounds (symbolic index %s, len %d)" % (tm.show(idx), n), ln)

    def assign(self, pl, v):
        if isinstance(pl, tuple) and pl[0] == "whole":
            tgt = pl[1]
            v = self.deref(v) if isinstance(v, Ref) else v
            if isinstance(tgt, Struct) and isinstance(v, Struct):
                tgt.clear()
                tgt.update(dcopy(v))
                tgt.ty = v.ty
                return
            if isinstance(tgt, Arr) and isinstance(v, Arr):
                tgt[:] = dcopy(v)
                return
            raise Unsupported("assignment through reference")
        pl.set(dcopy(v) if not isinstance(v, Ref) else v)

    # ---- expressions ----------------------------------------------------------------------
    def expr(self, e, frame, want_obj=False):
        k = e["k"]
        m = getattr(self, "e_" + k, None)
        if m is None:
            raise Unsupported("expression kind %s at line %s: %s" % (k, e.get("ln"), e.get("text", "")[:80]))
        return m(e, frame)

    def e_lit(self, e, frame):
        if e["t"] == "int":
            suf = e.get("suffix") or ""
            kind = REAL if suf.startswith("f") else UINT if suf.startswith("u") else INT
            return T.num(Fraction(int(e["v"])), kind)
        if e["t"] == "float":
            return T.num(Fraction(e["v"].replace("_", "")), REAL)
        if e["t"] == "bool":
            return TRUE if e["v"] else FALSE
        if e["t"] == "str":
            return e["v"]
        raise Unsupported("literal")

    def e_path(self, e, frame):
        segs = e["segs"]
        if len(segs) == 1:
            n = segs[0]
            if n in frame:
                v = frame[n]
                if v is None:
                    raise Unsupported("use of uninitialised %s" % n)
                return v
            if n in self.crate.consts:
                return self.expr(self.crate.consts[n]["e"], {})
            if n == "None":
                return Opt(None, False)
            raise Unsupported("unknown name %s at line %s" % (n, e.get("ln")))
        if segs[-2:] == ["f64", "NAN"]:
            return tm.NAN
        if segs[-2:] == ["f64", "INFINITY"]:
            return tm.INF
        if segs[-2:] == ["f64", "NEG_INFINITY"]:
            return -tm.INF
        if segs[-2:] == ["f64", "EPSILON"]:
            return T.num(Fraction(1, 2 ** 52), REAL)
        if segs[-2:] == ["f64", "MIN_POSITIVE"]:
            return T.num(Fraction(1, 2 ** 1022), REAL)
        if segs[-2:] == ["f64", "MAX"]:
            return T.num(Fraction((2 ** 53 - 1) * 2 ** 971), REAL)
        raise Unsupported("path %s at line %s" % ("::".join(segs), e.get("ln")))

    def e_field(self, e, frame):
        base = self.lvalue_obj(e["base"], frame)
        if isinstance(base, tuple):
            return base[int(e["name"])]
        if not isinstance(base, Struct) or e["name"] not in base:
            raise Undecided("lost anchor: field .%s at line %s" % (e["name"], e.get("ln")))
        return base[e["name"]]

    def e_index(self, e, frame):
        if e["idx"]["k"] == "range":
            base = self.lvalue_obj(e["base"], frame)
            lo = self.expr(e["idx"]["lo"], frame) if e["idx"]["lo"] else T.num(0, INT)
            hi = self.expr(e["idx"]["hi"], frame) if e["idx"]["hi"] else T.num(len(base), INT)
            if not (lo.is_num() and hi.is_num()):
                raise Unsupported("symbolic slice bounds at line %s" % e.get("ln"))
            hi_i = int(hi.value()) + (1 if e["idx"]["incl"] else 0)
            if hi_i > len(base):
                raise PanicSig("slice end out of bounds", e.get("ln"))
            return Ref(base, int(lo.value()), hi_i)
        return self.place(e, frame).get()

    def e_ref(self, e, frame):
        inner = e["e"]
        if inner["k"] == "index" and inner["idx"]["k"] == "range":
            return self.e_index(inner, frame)
        if inner["k"] in ("path", "field", "index"):
            try:
                pl = self.place(inner, frame)
            except Unsupported:
                return Ref(self.expr(inner, frame))
            if isinstance(pl, Place):
                v = pl.get()
                if isinstance(v, (Struct, Arr)):
                    return Ref(v)
                if isinstance(v, Ref):
                    return v
                return Ref(pl)
        v = self.expr(inner, frame)
        return Ref(v) if not isinstance(v, Ref) else v

    def e_unary(self, e, frame):
        op = e["op"]
        if op == "*":
            v = self.expr(e["e"], frame)
            return self.deref(v)
        v = self.expr(e["e"], frame)
        if op == "-":
            return -v
        if op == "!":
            return Not(v)
        raise Unsupported("unary " + op)

    def arith(self, op, a, b, ln):
        a = self.deref(a) if isinstance(a, Ref) else a
        b = self.deref(b) if isinstance(b, Ref) else b
        if not isinstance(a, T) or not isinstance(b, T):
            raise Unsupported("arithmetic on non-numbers at line %s" % ln)
        if (tm.mentions(a, ("NAN",)) or tm.mentions(b, ("NAN",))) and op != "/":
            return tm.NAN
        if op == "+":
            return a + b
        if op == "-":
            r = a - b
            if r.kind == UINT:
                if r.is_num():
                    if r.value() < 0:
                        raise PanicSig("attempt to subtract with overflow (unsigned)", ln)
                else:
                    self.oblige("underflow", r.ge(0), ln, "unsigned subtraction %s >= 0" % tm.show(r)[:120])
            return r
        if op == "*":
            return a * b
        if op == "/":
            if a.kind in INTS and b.kind in INTS:
                if a.is_num() and b.is_num():
                    if b.value() == 0:
                        raise PanicSig("integer division by zero", ln)
                    q = a.value().numerator // b.value().numerator  # operands are non-negative here
                    if a.value() < 0 or b.value() < 0:
                        raise Unsupported("signed integer division at line %s" % ln)
                    return T.num(q, a._k(b))
                raise Unsupported("symbolic integer division at line %s" % ln)
            if tm.mentions(a) or tm.mentions(b):
                return tm.NAN
            self.oblige("div", b.ne(0), ln, "denominator %s != 0" % tm.show(b)[:200])
            return a / b
        raise Unsupported("operator " + op)

    def e_binary(self, e, frame):
        op = e["op"]
        ln = e.get("ln")
        if op in ("&&", "||"):
            l = self.expr(e["l"], frame)
            # short-circuit: evaluate the right side only on the paths that reach it
            if op == "&&":
                if l is FALSE:
                    return FALSE
                if l is TRUE:
                    return self.expr(e["r"], frame)
                if self.decide(l, ln):
                    return self.expr(e["r"], frame)
                return FALSE
            else:
                if l is TRUE:
                    return TRUE
                if l is FALSE:
                    return self.expr(e["r"], frame)
                if self.decide(l, ln):
                    return TRUE
                return self.expr(e["r"], frame)
        if op in ("+=", "-=", "*=", "/="):
            pl = self.place(e["l"], frame)
            cur = pl.get()
            r = self.expr(e["r"], frame)
            if isinstance(r, Ref):
                r = self.deref(r)
            if isinstance(cur, T) and isinstance(r, T) and cur.kind == INT and r.kind == REAL and r.is_num():
                pass
            nv = self.arith(op[0], cur, r, ln)
            pl.set(nv)
            return UNIT
        l = self.expr(e["l"], frame)
        r = self.expr(e["r"], frame)
        l = self.deref(l) if isinstance(l, Ref) else l
        r = self.deref(r) if isinstance(r, Ref) else r
        if op in ("<", "<=", ">", ">=", "==", "!="):
            return self.compare(op, l, r, ln)
        return self.arith(op, l, r, ln)

    def compare(self, op, l, r, ln):
        if isinstance(l, B) and isinstance(r, B) and op in ("==", "!="):
            same = Or(And(l, r), And(Not(l), Not(r)))
            return same if op == "==" else Not(same)
        if not isinstance(l, T) or not isinstance(r, T):
            raise Unsupported("comparison of non-numbers at line %s" % ln)
        if tm.mentions(l, ("NAN",)) or tm.mentions(r, ("NAN",)):
            return TRUE if op == "!=" else FALSE     # IEEE: every comparison with NaN is false except !=
        return tm.cmp(op, l, r)

    def e_assign(self, e, frame):
        v = self.expr(e["r"], frame)
        pl = self.place(e["l"], frame)
        self.assign(pl, v)
        return UNIT

    def e_cast(self, e, frame):
        v = self.expr(e["e"], frame)
        ty = e["ty"].replace(" ", "")
        if not isinstance(v, T):
            raise Unsupported("cast of non-number")
        if ty == "f64":
            return real(v)
        if ty in ("u64", "usize", "i64"):
            if v.kind in INTS:
                return T(v.op, v.args, INT if ty == "i64" else UINT)
            raise Unsupported("float to int cast at line %s" % e.get("ln"))
        raise Unsupported("cast to " + ty)

    def e_block(self, e, frame):
        return self.block(e, frame)

    def truth(self, v, ln):
        if isinstance(v, B):
            return self.decide(v, ln)
        raise Unsupported("non-boolean condition at line %s" % ln)

    def e_if(self, e, frame):
        c = e["cond"]
        if c["k"] == "let":
            v = self.expr(c["e"], frame)
            pat = c["pat"]
            if isinstance(v, Opt) and pat["k"] == "ptuplestruct" and pat["path"][-1] == "Some" and len(pat["elems"]) == 1:
                if v.some:
                    self.bind(frame, pat["elems"][0], v.v)
                    return self.block(e["then"], frame)
                return self.expr(e["else"], frame) if e["else"] is not None else UNIT
            if isinstance(v, Opt) and pat["k"] in ("ppath", "pident") and (pat.get("path", [pat.get("name")])[-1] == "None"):
                if not v.some:
                    return self.block(e["then"], frame)
                return self.expr(e["else"], frame) if e["else"] is not None else UNIT
            raise Unsupported("if let at line %s" % e.get("ln"))
        cv = self.expr(c, frame)
        if self.truth(cv, e.get("ln")):
            return self.block(e["then"], frame)
        if e["else"] is not None:
            return self.expr(e["else"], frame)
        return UNIT

    def match_pat(self, p, v, frame, ln):
        """Does value v match pattern p on this path?  Binds identifiers into frame.  Symbolic tests go through decide()."""
        k = p["k"]
        if k == "pwild":
            return True
        if k == "pref":
            return self.match_pat(p["pat"], v, frame, ln)
        if k in ("ppath", "pident") and p.get("path", [p.get("name")])[-1] == "None" and isinstance(v, Opt):
            return not v.some
        if k == "pident":
            self.bind(frame, p, v)
            return True
        if k == "ptuplestruct" and p["path"][-1] == "Some" and isinstance(v, Opt) and len(p["elems"]) == 1:
            return v.some and self.match_pat(p["elems"][0], v.v, frame, ln)
        if k == "ptuple" and isinstance(v, tuple) and len(v) == len(p["elems"]):
            for q, w in zip(p["elems"], v):
                if not self.match_pat(q, w, frame, ln):
                    return False
            return True
        if k == "plit":
            lv = self.e_lit(p["lit"], frame)
            if isinstance(v, B) and isinstance(lv, B):
                t = self.decide(v, ln)
                return t if lv is TRUE or lv == TRUE else not t
            if isinstance(v, T) and isinstance(lv, T):
                return self.decide(v.eq(lv), ln)
        raise Unsupported("match pattern %s at line %s" % (k, ln))

    def e_match(self, e, frame):
        v = self.expr(e["e"], frame)
        ln = e.get("ln")
        if not isinstance(v, (T, B, Opt, tuple)):
            raise Unsupported("match on unsupported scrutinee at line %s" % ln)
        for arm in e["arms"]:
            if not self.match_pat(arm["pat"], v, frame, ln):
                continue
            if arm["guard"] is not None:
                g = self.expr(arm["guard"], frame)
                if not self.truth(g, ln):
                    continue
            return self.expr(arm["body"], frame)
        raise Unsupported("non-exhaustive match at line %s" % ln)

    def _pull(self, it, state, ln):
        """Next item of a range / crate-defined iterator, or None when exhausted (std zip stops at the shorter one)."""
        if isinstance(it, RangeV):
            lo, hi = it.lo, it.hi
            if not (isinstance(lo, T) and lo.is_num() and isinstance(hi, T) and hi.is_num()):
                raise Unsupported("range with symbolic bounds at line %s" % ln)
            i = state.setdefault(id(it), int(lo.value()))
            if i >= int(hi.value()) + (1 if it.incl else 0):
                return None
            state[id(it)] = i + 1
            return T.num(i, INT)
        if isinstance(it, Struct) and (it.ty, "next") in self.crate.fns:
            r = self.call(it.ty, "next", it, [])
            if not isinstance(r, Opt):
                raise Unsupported("next() of %s is not an Option at line %s" % (it.ty, ln))
            return r.v if r.some else None
        if isinstance(it, ListIter) and not it.enum:
            i = state.setdefault(id(it), it.lo)
            if i >= it.hi:
                return None
            state[id(it)] = i + 1
            return Ref(Place(it.arr, i)) if it.mutable else it.arr[i]
        raise Unsupported("iterator of kind %s at line %s" % (type(it).__name__, ln))

    def e_for(self, e, frame):
        it = self.expr(e["iter"], frame)
        generic = (isinstance(it, Struct) and (it.ty, "next") in self.crate.fns) or \
            (isinstance(it, ZipIter) and not (isinstance(it.a, ListIter) and isinstance(it.b, ListIter)))
        if generic:
            state = {}
            try:
                for _ in range(4096):
                    if isinstance(it, ZipIter):
                        a = self._pull(it.a, state, e.get("ln"))
                        if a is None:
                            break
                        b = self._pull(it.b, state, e.get("ln"))
                        if b is None:
                            break
                        item = (a, b)
                    else:
                        item = self._pull(it, state, e.get("ln"))
                        if item is None:
                            break
                    self.bind(frame, e["pat"], item)
                    try:
                        self.block(e["body"], frame)
                    except ContinueSig:
                        pass
                else:
                    raise Unsupported("for loop did not terminate within 4096 symbolic iterations at line %s" % e.get("ln"))
            except BreakSig:
                pass
            return UNIT
        if isinstance(it, (ListIter, ZipIter)):
            def items(li):
                for k in range(li.lo, li.hi):
                    item = Ref(Place(li.arr, k)) if li.mutable else li.arr[k]
                    yield (T.num(k - li.lo, UINT), item) if li.enum else item
            seq = items(it) if isinstance(it, ListIter) else zip(items(it.a), items(it.b))
            try:
                for item in seq:
                    self.bind(frame, e["pat"], tuple(item) if isinstance(it, ZipIter) else item)
                    try:
                        self.block(e["body"], frame)
                    except ContinueSig:
                        pass
            except BreakSig:
                pass
            return UNIT
        if not isinstance(it, RangeV):
            raise Unsupported("for over non-range at line %s" % e.get("ln"))
        lo, hi = it.lo, it.hi
        if not (isinstance(lo, T) and lo.is_num() and isinstance(hi, T) and hi.is_num()):
            raise Unsupported("for loop with symbolic bounds at line %s" % e.get("ln"))
        a, b = int(lo.value()), int(hi.value()) + (1 if it.incl else 0)
        try:
            for i in range(a, b):
                self.bind(frame, e["pat"], T.num(i, INT))
                try:
                    self.block(e["body"], frame)
                except ContinueSig:
                    pass
        except BreakSig:
            pass
        return UNIT

    def e_while(self, e, frame):
        try:
            for _ in range(256):
                c = self.expr(e["cond"], frame)
                if not self.truth(c, e.get("ln")):
                    return UNIT
                try:
                    self.block(e["body"], frame)
                except ContinueSig:
                    pass
        except BreakSig:
            return UNIT
        raise Unsupported("while loop did not terminate within 256 symbolic iterations at line %s" % e.get("ln"))

    def e_range(self, e, frame):
        lo = self.expr(e["lo"], frame) if e["lo"] else None
        hi = self.expr(e["hi"], frame) if e["hi"] else None
        return RangeV(lo, hi, e["incl"])

    def e_closure(self, e, frame):
        return Closure(e["params"], e["body"], frame)

    def call_closure(self, c, args):
        fr = dict(c.frame)
        if len(c.params) != len(args):
            raise Unsupported("closure arity")
        for p, a in zip(c.params, args):
            self.bind(fr, p, a)
        return self.expr(c.body, fr)

    def e_return(self, e, frame):
        v = self.expr(e["e"], frame) if e["e"] is not None else UNIT
        raise ReturnSig(v)

    def e_break(self, e, frame):
        raise BreakSig()

    def e_continue(self, e, frame):
        raise ContinueSig()

    def e_struct(self, e, frame):
        name = e["path"][-1]
        if name == "Self":
            name = frame.get("$ty")
        name = self.crate.resolve_ty(name)
        if name not in self.crate.structs:
            raise Unsupported("struct literal %s" % name)
        fields = {}
        for fname, fe in e["fields"]:
            v = self.expr(fe, frame)
            fields[fname] = dcopy(v)
        if e.get("rest") is not None:
            raise Unsupported("struct update syntax")
        want = [f for f, _ in self.crate.structs[name]]
        if sorted(want) != sorted(fields):
            raise Unsupported("struct literal %s fields" % name)
        # integer literals assigned to f64 fields keep INT kind only where the field is an integer
        for f, ty in self.crate.structs[name]:
            if isinstance(fields[f], T) and ty.replace(" ", "") == "f64":
                fields[f] = real(fields[f])
        return Struct(name, fields)

    def e_array(self, e, frame):
        return Arr([dcopy(self.expr(x, frame)) for x in e["elems"]])

    def e_repeat(self, e, frame):
        v = self.expr(e["e"], frame)
        n = self.expr(e["len"], frame)
        if not (isinstance(n, T) and n.is_num()):
            raise Unsupported("array length")
        return Arr([dcopy(v) for _ in range(int(n.value()))])

    def e_tuple(self, e, frame):
        return tuple(self.expr(x, frame) for x in e["elems"])

    def e_macro(self, e, frame):
        name = e["name"].split("::")[-1]
        args = e["args"]
        ln = e.get("ln")
        if name in ("debug_assert", "debug_assert_eq", "debug_assert_ne", "assert", "assert_eq", "assert_ne"):
            if args is None:
                raise Unsupported("macro arguments at line %s" % ln)
            if name.endswith("_eq") or name.endswith("_ne"):
                a = self.expr(args[0], frame)
                b = self.expr(args[1], frame)
                a = self.deref(a) if isinstance(a, Ref) else a
                b = self.deref(b) if isinstance(b, Ref) else b
                cond = self.compare("==" if name.endswith("_eq") else "!=", a, b, ln)
            else:
                cond = self.expr(args[0], frame)
            if name.startswith("debug_"):
                self.oblige("debug_assert", cond, ln, e.get("raw", "")[:120])
            else:
                if not self.decide(cond, ln):
                    raise PanicSig("assertion failed: %s" % e.get("raw", "")[:120], ln)
            return UNIT
        raise Unsupported("macro %s! at line %s" % (name, ln))

    # ---- calls ----------------------------------------------------------------------------
    def e_call(self, e, frame):
        f = e["f"]
        if f["k"] != "path":
            raise Unsupported("call of non-path at line %s" % e.get("ln"))
        segs = f["segs"]
        ln = e.get("ln")
        args = [self.expr(a, frame) for a in e["args"]]
        name = segs[-1]
        if len(segs) == 1:
            if isinstance(frame.get(name), Closure):       # `let f = |a, b| ..; f(x, y)`
                return self.call_closure(frame[name], args)
            if name == "Some":
                return Opt(args[0], True)
            if name == "pow":
                return self.lib_pow(args, ln)
            if name == "min" and (None, "min") not in self.crate.fns:
                return self.lib_minmax(args, ln, True)
            if name == "sort_floats":
                return self.lib_sort(args[0], ln)
            if (None, name) in self.crate.fns:
                return self.call(None, name, None, [dcopy(a) if not isinstance(a, Ref) else a for a in args])
            raise Unsupported("function %s at line %s" % (name, ln))
        owner = segs[-2]
        if owner == "Self":
            owner = frame.get("$ty")
        rowner = self.crate.resolve_ty(owner)
        if (rowner, name) in self.crate.fns:
            fn, _ = self.crate.fn(rowner, name)
            if fn["self"] is not None:
                recv = args[0]
                recv = self.deref(recv) if isinstance(recv, Ref) else recv
                return self.call(rowner, name, recv, args[1:])
            return self.call(rowner, name, None, args)
        if owner == "Float" or segs[-3:-1] == ["num_traits", "Float"]:
            return self.lib_float(name, args, ln)
        if owner in ("i64", "usize", "u64", "f64") and name in ("conv", "conv_nearest"):
            return self.lib_conv(owner, name, args[0], ln)
        if owner in ("f64", "u64", "usize", "i64") and name == "from":
            v = self.deref(args[0]) if isinstance(args[0], Ref) else args[0]
            if isinstance(v, T):
                return real(v) if owner == "f64" else v
        if owner == "f64" and name in ("sqrt", "abs", "ceil", "max", "min", "powi", "recip", "mul_add", "signum", "powf", "is_nan"):
            recv = self.deref(args[0]) if isinstance(args[0], Ref) else args[0]
            return self.lib_num_method(name, recv, args[1:], ln)
        if owner == "Default" and name == "default":
            raise Unsupported("Default::default() without type at line %s" % ln)
        raise Unsupported("call %s at line %s" % ("::".join(segs), ln))

    def e_mcall(self, e, frame):
        ln = e.get("ln")
        m = e["m"]
        recv = self.expr(e["recv"], frame, want_obj=True)
        robj = self.deref(recv) if isinstance(recv, Ref) and recv.lo is None else recv
        args = [self.expr(a, frame) for a in e["args"]]
        if isinstance(robj, Struct):
            if (robj.ty, m) in self.crate.fns:
                return self.call(robj.ty, m, robj, args)
            if m == "clone":
                return dcopy(robj)
            for (ty, name) in list(self.crate.fns):
                if name == m and isinstance(ty, str) and ty.startswith("trait:"):
                    return self.call(ty, m, robj, args)
            if m == "into_iter":
                return AbsIter([])   # opaque: only carried around, never advanced by the code under contract
            if (robj.ty, "next") in self.crate.fns:
                # an Iterator implemented in the crate (IterBinomial): the adaptors below are the std ones (A-LIB)
                if m == "skip" and isinstance(args[0], T) and args[0].is_num():
                    for _ in range(int(args[0].value())):       # eager: the crate's iterators have no effect but their own state
                        self.call(robj.ty, "next", robj, [])
                    return robj
                if m == "zip":
                    return ZipIter(robj, args[0])
                if m in ("by_ref", "into_iter"):
                    return robj
            raise Undecided("lost anchor: method %s::%s at line %s" % (robj.ty, m, ln))
        if isinstance(robj, Opt):
            if m == "unwrap":
                if not robj.some:
                    raise PanicSig("called Option::unwrap() on a None value", ln)
                return robj.v
            if m == "map" and isinstance(args[0], Closure):
                if not robj.some:
                    return Opt(None, False)
                return Opt(self.call_closure(args[0], [robj.v]), True)
            raise Unsupported("Option::%s" % m)
        if isinstance(robj, AbsIter):
            if m == "next":
                return robj.next()
            if m == "find" and len(args) == 1 and isinstance(args[0], Closure):
                # std Iterator::find: advance until the predicate holds (A-LIB); the predicate receives a reference
                while True:
                    r = robj.next()
                    if not r.some:
                        return r
                    if self.truth(self.call_closure(args[0], [r.v]), ln):
                        return r
            raise Unsupported("iterator method %s at line %s" % (m, ln))
        if isinstance(robj, ListIter):
            if m == "enumerate":
                return ListIter(robj.arr, robj.lo, robj.hi, robj.mutable, True)
            if m == "zip":
                o = args[0]
                if isinstance(o, Arr):
                    o = ListIter(o, 0, len(o), False)
                if isinstance(o, ListIter):
                    return ZipIter(robj, o)
            if m == "sum" and not robj.enum:
                tot = T.num(0, UINT)
                for k in range(robj.lo, robj.hi):
                    tot = tot + robj.arr[k]
                return tot
            raise Unsupported("iterator method %s at line %s" % (m, ln))
        if isinstance(robj, Ref) and robj.lo is not None and m in ("iter", "iter_mut", "len"):
            arr = self.deref(robj)
            if m == "len":
                return T.num(robj.hi - robj.lo, UINT)
            return ListIter(arr, robj.lo, robj.hi, m == "iter_mut")
        if isinstance(robj, RangeV) and m == "zip":
            return ZipIter(robj, args[0])
        if isinstance(robj, RangeV) and m == "contains":
            x = self.deref(args[0]) if isinstance(args[0], Ref) else args[0]
            c = And(robj.lo.le(x), x.le(robj.hi) if robj.incl else x.lt(robj.hi))
            return c
        if isinstance(robj, Arr):
            if m in ("iter", "iter_mut"):
                return ListIter(robj, 0, len(robj), m == "iter_mut")
            if m == "len":
                return T.num(len(robj), UINT)
            if m == "clone":
                return dcopy(robj)
            raise Unsupported("array method %s" % m)
        if isinstance(robj, T):
            return self.lib_num_method(m, robj, args, ln)
        raise Unsupported("method %s on %s at line %s" % (m, type(robj).__name__, ln))

    # ---- library models (A-LIB; the complete list is in DESIGN.md section 3.1) ----------------
    def lib_num_method(self, m, x, args, ln):
        if m == "to_f64":
            return Opt(real(x), True)
        if m == "clone":
            return x
        if m == "abs":
            if x.is_num():
                return T.num(abs(x.value()), x.kind)
            if self.decide(x.ge(0), ln):
                return x
            return -x
        if m in ("max", "min"):
            y = self.deref(args[0]) if isinstance(args[0], Ref) else args[0]
            return self.lib_minmax([x, y], ln, m == "min")
        if m == "ceil":
            return self.lib_ceil(x, ln)
        if m == "is_nan":
            return TRUE if tm.mentions(x, ("NAN",)) else FALSE
        if m == "sqrt":
            return self.lib_float("sqrt", [x], ln)
        if m in ("signum", "powf"):
            return self.lib_float(m, [x] + list(args), ln)
        if m == "powi":
            k = args[0]
            if isinstance(k, T) and k.is_num() and k.value().denominator == 1 and k.value() >= 0:
                return tm.NAN if tm.mentions(x) else x ** int(k.value())
            raise Unsupported("powi with a non-constant / negative exponent at line %s" % ln)
        if m == "recip":
            return self.arith("/", T.num(1, REAL), x, ln)
        if m == "mul_add":
            # exact reals: fused multiply-add is a*b + c
            return self.arith("+", self.arith("*", x, args[0], ln), args[1], ln)
        if m == "clamp":
            lo, hi = args
            return self.lib_minmax([self.lib_minmax([x, lo], ln, False), hi], ln, True)
        if m in ("is_finite",):
            return FALSE if tm.mentions(x) else TRUE
        if m in ("is_infinite",):
            return TRUE if (tm.mentions(x, ("INF",)) and not tm.mentions(x, ("NAN",))) else FALSE
        if m in ("into", "to_owned"):
            return x
        raise Unsupported("numeric method %s at line %s" % (m, ln))

    def lib_minmax(self, args, ln, is_min):
        a, b = args
        a = self.deref(a) if isinstance(a, Ref) else a
        b = self.deref(b) if isinstance(b, Ref) else b
        if a.is_num() and b.is_num():
            return a if ((a.value() <= b.value()) == is_min) else b
        if self.decide(a.le(b), ln):
            return a if is_min else b
        return b if is_min else a

    def lib_ceil(self, x, ln):
        if x.is_num():
            import math
            return T.num(Fraction(math.ceil(x.value())), REAL)
        c = self.new_sym("ceil", INT)
        self.assume(And(real(c).ge(x), (real(c) - 1).lt(x)))
        self.path.ints = getattr(self.path, "ints", []) + [c]
        return real(c)

    def lib_pow(self, args, ln):
        b, k = args
        if not (isinstance(k, T) and k.is_num() and k.value().denominator == 1 and k.value() >= 0):
            raise Unsupported("pow with symbolic exponent at line %s" % ln)
        if tm.mentions(b):
            return tm.NAN
        return b ** int(k.value())

    def lib_float(self, name, args, ln):
        x = args[0]
        if name == "sqrt":
            if tm.mentions(x):
                return tm.NAN
            self.oblige("domain", x.ge(0), ln, "sqrt argument %s >= 0" % tm.show(x)[:200])
            return tm.sqrt(x)
        if name == "powf":
            p = args[1]
            if tm.mentions(x):
                return tm.NAN
            if p.is_num() and p.value() == Fraction(3, 2):
                self.oblige("domain", x.ge(0), ln, "powf(x, 1.5) argument %s >= 0" % tm.show(x)[:200])
                return x * tm.sqrt(x)
            raise Unsupported("powf exponent at line %s" % ln)
        if name == "signum":
            if x.is_num():
                return T.num(1 if x.value() >= 0 else -1, REAL)
            if self.decide(x.ge(0), ln):
                return T.num(1, REAL)
            return T.num(-1, REAL)
        raise Unsupported("Float::%s at line %s" % (name, ln))

    def lib_conv(self, owner, name, x, ln):
        x = self.deref(x) if isinstance(x, Ref) else x
        if owner == "f64":
            return real(x)
        # to an integer type: exact on integral values (easy-cast panics otherwise)
        if x.kind in INTS:
            if owner in ("usize", "u64"):
                if x.kind != UINT:
                    self.oblige("conv", x.ge(0), ln, "conversion of %s to unsigned" % tm.show(x)[:100])
                return T(x.op, x.args, UINT)
            return T(x.op, x.args, INT)
        if x.is_num():
            v = x.value()
            if name == "conv_nearest":
                import math
                r = math.floor(v + Fraction(1, 2))
                if r < 0 and owner in ("usize", "u64"):
                    raise PanicSig("conv_nearest of negative value to unsigned", ln)
                return T.num(Fraction(r), UINT if owner in ("usize", "u64") else INT)
            if v.denominator != 1 or (v < 0 and owner in ("usize", "u64")):
                raise PanicSig("conv of non-integral / negative value", ln)
            return T.num(v, UINT if owner in ("usize", "u64") else INT)
        # real-kinded view of an integer symbol (e.g. ceil result): recover the integer
        if x.op == "sym" and x.args[0].startswith("ceil!"):
            if owner in ("usize", "u64"):
                self.oblige("conv", x.ge(0), ln, "conversion of %s to unsigned" % tm.show(x)[:100])
            return T(x.op, x.args, UINT if owner in ("usize", "u64") else INT)
        raise Unsupported("conv of symbolic real at line %s" % ln)

    def lib_sort(self, ref, ln):
        """float_ord::sort on non-NaN values: ascending rearrangement (insertion sort by decisions)."""
        if not isinstance(ref, Ref):
            raise Unsupported("sort argument")
        arr = self.deref(ref)
        lo = ref.lo if ref.lo is not None else 0
        hi = ref.hi if ref.hi is not None else len(arr)
        for i in range(lo + 1, hi):
            j = i
            while j > lo:
                a, b = arr[j - 1], arr[j]
                if self.decide(a.le(b), ln):
                    break
                arr[j - 1], arr[j] = b, a
                j -= 1
        return UNIT
