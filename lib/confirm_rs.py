"""Replay search for RS refutations: the failed obligation names the function; a corpus of short
well-conditioned histories through that function is executed on the real crate and compared with
the exact statistics.  The first mismatch becomes the replay program."""
import re
from fractions import Fraction

import oracle
import replay

SEQS = [
    [1.0], [2.0, 5.0], [1.0, 2.0, 4.0], [3.0, 1.0, 2.0], [1.0, 2.0, 4.0, 8.0], [1.0, 2.0, 3.0, 4.0, 10.0],
    [-10.0, -4.0, -3.0, -2.0, -1.0], [5.0, 5.0, 5.0], [0.5, -1.5, 2.25, 7.0, 7.0, -3.0], [2.0, 2.0, 9.0, 1.0, 4.0, 4.0, 6.0],
]

ACCESSORS = {
    "Mean": ["len", "is_empty", "mean"],
    "Variance": ["len", "is_empty", "mean", "population_variance", "sample_variance", "variance_of_mean", "error"],
    "Skewness": ["len", "is_empty", "mean", "population_variance", "sample_variance", "error_mean", "skewness"],
    "Kurtosis": ["len", "is_empty", "mean", "population_variance", "sample_variance", "error_mean", "skewness", "kurtosis"],
}


def moment_accessors(N):
    return (["len", "is_empty", "mean", "sample_variance", "sample_skewness", "sample_excess_kurtosis"] +
            [["central_moment", p] for p in range(0, N + 1)] + [["standardized_moment", p] for p in range(0, N + 1)])


def _key(o):
    return o if isinstance(o, str) else "%s(%s)" % (o[0], ",".join(str(a) for a in o[1:]))


# power-of-two scales: scaling the data by 2^k scales every statistic exactly (no rounding), so results on scaled
# data can be mapped back and compared with the same exact expectations; this exposes scale-dependent defects
SCALES = [1.0, 2.0 ** -66, 2.0 ** -20, 2.0 ** 17]
DEGREE = {"mean": 1, "population_variance": 2, "sample_variance": 2, "variance_of_mean": 2, "error": 1, "error_mean": 1,
          "skewness": 0, "kurtosis": 0, "sample_skewness": 0, "sample_excess_kurtosis": 0, "len": 0, "is_empty": 0,
          "standardized_moment": 0}


def degree(key):
    name = key.split("(")[0]
    if name == "central_moment":
        return int(key.split("(")[1].rstrip(")"))
    if name == "standardized_moment" and key.endswith("(0)"):
        return 0
    return DEGREE.get(name, 0)


def moment_programs(ty, accessors, with_merge):
    progs = []
    for sc in SCALES[1:]:
        for xs in SEQS[2:7]:
            progs.append({"type": ty, "ctor": ["new"], "ops": [["add", x * sc] for x in xs], "observe": accessors, "_scale": sc})
    progs = _unscaled(ty, accessors, with_merge) + progs
    return progs


def _unscaled(ty, accessors, with_merge):
    progs = []
    for xs in SEQS:
        progs.append({"type": ty, "ctor": ["new"], "ops": [["add", x] for x in xs], "observe": accessors})
        if with_merge:
            for cut in range(0, len(xs) + 1):
                progs.append({"type": ty, "ctor": ["new"], "ops": [["add", x] for x in xs[:cut]] + [
                    ["merge", {"type": ty, "ctor": ["new"], "ops": [["add", x] for x in xs[cut:]]}]], "observe": accessors})
    return progs


def confirm_moment(ob, type_map=None):
    """type_map: obligation type name -> replay type name (e.g. Moments6 -> M6)."""
    m = re.match(r"(?:C\d+\.premise\.)?C\d+\.(\w+)\.", ob.name)
    if not m:
        return None
    oty = m.group(1)
    ty = (type_map or {}).get(oty, oty)
    if ty in ACCESSORS:
        acc = ACCESSORS[ty]
    elif ty in replay.MOMENT_TYPES:
        N = replay.MOMENT_TYPES[ty] or 4
        acc = moment_accessors(N)
    else:
        return None
    progs = moment_programs(ty, acc, with_merge=True)
    results = replay.run_programs(progs)
    want = ((ob.cex or {}).get("class") or {}).get("accessor")
    focus = [a for a in acc if want and _key(a).split("(")[0] == want]
    passes = [focus, acc] if focus else [acc]
    for sel in passes:
        r = _scan(progs, results, sel, acc)
        if r is not None and (r.get("confirmed_on_real_code") or r.get("replay_error")):
            return r
    return {"confirmed_on_real_code": False, "note": "%d short histories agree with the exact statistics" % len(progs)}


def _scan(progs, results, sel, acc):
    for prog, res in zip(progs, results):
        if res.get("error"):
            return {"replay_error": res["error"], "raw": res.get("raw", "")[-400:]}
        sc = prog.get("_scale", 1.0)
        xs = [Fraction(x) / Fraction(sc) for x in oracle.flatten_moment_prog(prog)]
        exp = oracle.moment_stats(xs)
        if sc != 1.0:
            res = dict(res, obs={k: (v / (sc ** degree(k)) if isinstance(v, float) and degree(k) else v) for k, v in res["obs"].items()})
        keys = [_key(a) for a in sel]
        panics_expected = any(isinstance(exp.get(k), tuple) for k in keys)
        bad = oracle.compare(res, exp, keys) if not res["panic"] else []
        if res["panic"] and not panics_expected:
            bad = [("panic", "no panic", res["panic"])]
        if res["panic"] and panics_expected:
            continue
        if bad:
            return {"program": prog, "expected": {k: e for k, e, a in bad}, "actual": {k: a for k, e, a in bad},
                    "panic": res["panic"], "confirmed_on_real_code": True,
                    "note": "found by executing %d short histories on the real crate against exact rational statistics" % len(progs)}
    return None
