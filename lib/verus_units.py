"""Verus on the real code: functions extracted mechanically from /repo on every run and verified against contracts
that live in contracts/verus/*.tmpl.  Only integer code is within Verus's reach in this crate (no float theory):
the binomial-coefficient iterator used by define_moments! (add and merge of every order).

What the extraction drops or rewrites is stated in the template header and in the evidence (`extraction`)."""
import os
import re
import subprocess
import tempfile
import time

from common import Obligation, DISCHARGED, REFUTED, UNDECIDED, REPO, VERIF, RSX, Undecided, run

TMPL = os.path.join(VERIF, "contracts", "verus", "iterbinomial.rs.tmpl")
SRC = "src/moments/mod.rs"


def _rsx(args):
    p = subprocess.run([RSX] + args, stdout=subprocess.PIPE, stderr=subprocess.PIPE, text=True)
    if p.returncode != 0:
        raise Undecided("rsx %s failed: %s" % (" ".join(args), p.stderr.strip()))
    import json
    return json.loads(p.stdout)


def _walk(items):
    for it in items:
        yield it
        if it["k"] == "mod":
            for x in _walk(it["items"]):
                yield x


def extract():
    """-> dict(struct=..., fns={name: (signature_line, body_lines)}, spans=...) from the current source."""
    path = os.path.join(REPO, SRC)
    ast = _rsx(["expand", path, "define_moments_common", "name=M", "MAX_MOMENT=4"])
    lines = open(path).read().split("\n")
    st, fns = None, {}
    for it in _walk(ast["items"]):
        if it["k"] == "struct_def" and it["name"] == "IterBinomial":
            st = it
        if it["k"] == "impl" and it["target"].replace(" ", "") == "IterBinomial":
            for f in it["items"]:
                if f["k"] == "fn" and f["name"] in ("new", "next"):
                    fns[f["name"]] = f
    if st is None or set(fns) != {"new", "next"}:
        raise Undecided("lost anchor: IterBinomial / new / next in %s" % SRC)
    if any(f["ty"].replace(" ", "") != "u64" for f in st["fields"]):
        raise Undecided("unsupported construct: IterBinomial fields are not all u64")
    struct = "struct IterBinomial {\n" + "".join("    %s: %s,\n" % (f["name"], f["ty"]) for f in st["fields"]) + "}"
    out = {"struct": struct, "fns": {}, "spans": {}}
    for name, f in fns.items():
        text = lines[f["ln"] - 1:f["end_ln"]]
        bl = (f.get("body") or {}).get("ln") or f["ln"]          # line of the body's opening brace (signatures may span lines)
        nsig = bl - f["ln"] + 1
        head = " ".join(l.strip() for l in text[:nsig])
        m = re.match(r"^(?:pub\s+)?fn\s+%s\s*\((.*)\)\s*->\s*(.+?)\s*\{\s*$" % name, head)
        if not m:
            raise Undecided("lost anchor: signature of IterBinomial::%s: %r" % (name, head))
        sig = "fn %s(%s) -> (r: %s)" % (name, m.group(1).strip().rstrip(","), m.group(2))
        out["fns"][name] = (sig, text[nsig:])        # body lines after the opening brace, verbatim, incl. the closing brace
        out["spans"][name] = "%s:%d-%d" % (SRC, f["ln"], f["end_ln"])
    return out


def render(ex):
    t = open(TMPL).read()
    t = t.replace("@STRUCT@", ex["struct"])
    for name, (sig, body) in ex["fns"].items():
        t = t.replace("@FN %s@" % name, sig)
        ghost = ""
        g = re.search(r"@GHOST %s@\n(.*?)\n\s*@BODY %s@" % (name, name), t, flags=re.S)
        if g:
            ghost = g.group(1) + "\n"
            t = t[:g.start()] + "@BODY %s@" % name + t[g.end():]
        t = t.replace("@BODY %s@" % name, "{\n" + ghost + "\n".join(body))
    return t


NATIVE = r'''
%(struct)s
impl IterBinomial {
    %(new_sig)s {
%(new_body)s
    %(next_sig)s {
%(next_body)s
}
fn main() {
    // Pascal's triangle by additions only, rows 0..=62 (every entry fits u64, and so does k * C(n, k) up to n = 61)
    let mut row: Vec<u128> = vec![1];
    for n in 0u64..=61 {
        let mut it = IterBinomial::new(n);
        for k in 0..=n {
            let want = row[k as usize];
            if k >= 1 && (k as u128) * want > u64::MAX as u128 { break; }
            match it.next() {
                Some(got) if got as u128 == want => {}
                other => { println!("MISMATCH n={} k={} expected {} got {:?}", n, k, want, other); return; }
            }
        }
        let mut nxt = vec![1u128; row.len() + 1];
        for j in 1..row.len() { nxt[j] = row[j - 1] + row[j]; }
        row = nxt;
    }
    let mut it = IterBinomial::new(3);
    for _ in 0..4 { it.next(); }
    if it.next().is_some() { println!("MISMATCH n=3 k=4 expected None got Some"); return; }
    println!("OK");
}
'''


def native_replay(ex, workdir):
    """Run the extracted text natively against Pascal's triangle: a concrete failing (n, k) or None."""
    def plain(sig):
        return re.sub(r"-> \(r: (.+)\)$", r"-> \1", sig)
    src = NATIVE % {"struct": ex["struct"], "new_sig": plain(ex["fns"]["new"][0]), "new_body": "\n".join(ex["fns"]["new"][1]),
                    "next_sig": plain(ex["fns"]["next"][0]), "next_body": "\n".join(ex["fns"]["next"][1])}
    p = os.path.join(workdir, "native.rs")
    open(p, "w").write("#![allow(dead_code, unused)]\n" + src)
    rc, out, _ = run(["rustc", "-O", "-o", os.path.join(workdir, "native"), p], 120, cwd=workdir)
    if rc != 0:
        return None, "native build failed: " + (out or "")[-300:]
    rc, out, _ = run([os.path.join(workdir, "native")], 60, cwd=workdir)
    m = re.search(r"MISMATCH (.*)", out or "")
    if m:
        return m.group(1), None
    if rc != 0:
        return "panic: " + (out or "").strip()[-200:], None
    return None, None


def iterbinomial_obligations(prop):
    t0 = time.time()
    where = SRC + "::define_moments_common!::IterBinomial::{new, next}"
    try:
        ex = extract()
    except Undecided as e:
        return [Obligation("%s.IterBinomial.contract[verus]" % prop, where, "verus", UNDECIDED, 0.0, str(e))]
    work = tempfile.mkdtemp(prefix="vu_", dir=os.environ.get("VERIF_SCRATCH", "/tmp"))
    try:
        f = os.path.join(work, "iterbinomial.rs")
        text = render(ex)
        open(f, "w").write(text)
        rc, out, secs = run(["verus", f, "--output-json", "--time"], 300, cwd=work)
        import json
        info = {}
        try:
            info = json.loads(out[out.index("{"):])
        except Exception:
            pass
        vr = info.get("verification-results", {})
        ok = rc == 0 and vr.get("success") is True and vr.get("errors", 1) == 0 and vr.get("verified", 0) >= 6
        errs = [l for l in (out or "").split("\n") if l.startswith("error") or "failed this" in l][:6]
        contract = open(TMPL).read()
        ctext = "\n".join(l for l in contract.split("\n") if re.search(r"requires|ensures|==>|&& ", l))[:1400]
        obs = []
        if ok:
            obs.append(Obligation("%s.IterBinomial.next.yields_binomial_coefficients[verus]" % prop, where, "verus", DISCHARGED, secs,
                                  "verus: %s verified, 0 errors; extracted %s, %s" % (vr.get("verified"), ex["spans"]["new"], ex["spans"]["next"]),
                                  text="for EVERY n < 2^64-1: the k-th call of next() on IterBinomial::new(n) returns Some(C(n, k)) for k <= n (while k*C(n,k) fits u64), then None\n" + ctext))
            obs.append(Obligation("%s.IterBinomial.lemma.pascal_absorption[verus]" % prop, "contracts/verus/iterbinomial.rs.tmpl::lemma_absorb, lemma_absorb2, lemma_step_dec",
                                  "verus", DISCHARGED, 0.0, "C(n,k-1)*(n-k+1) == k*C(n,k) from Pascal's rule, by induction", kind="lemma"))
            return obs
        bad, err = native_replay(ex, work)
        name = "%s.IterBinomial.next.yields_binomial_coefficients[verus]" % prop
        if bad:
            return [Obligation(name, where, "verus+native-replay", REFUTED, secs,
                               "the extracted functions do not yield Pascal's triangle: %s; verus: %s" % (bad, " | ".join(errs)[:400]),
                               cex={"class": {"unit": "IterBinomial"}, "replay": {"note": "extracted text run natively", "mismatch": bad}, "verus_output": (out or "")[-1500:]})]
        return [Obligation(name, where, "verus", UNDECIDED, secs,
                           "verus does not accept the obligations any more (%s) but the extracted code still yields Pascal's triangle for n <= 61%s: proof broken, not a verdict" % (
                               " | ".join(errs)[:300] or "rc=%s" % rc, "; " + err if err else ""))]
    finally:
        import shutil
        shutil.rmtree(work, ignore_errors=True)


def confirm(ob, prop):
    """A refuted unit contract is replayed through the public API of the real crate: define_moments! types of order 5, 6, 8
    (add streams and merges against exact rational statistics); failing that, the native run of the extracted text stands."""
    if "IterBinomial" not in ob.name:
        return None
    from confirm_rs import confirm_moment

    class _Ob:
        pass
    for oty, rty in (("Moments5", "M5"), ("Moments6", "M6"), ("Moments8", "M8")):
        f = _Ob()
        f.name = "%s.%s.unit" % (prop, oty)
        f.cex = {}
        try:
            r = confirm_moment(f, {oty: rty})
        except Exception:
            r = None
        if r and r.get("confirmed_on_real_code"):
            r["note"] = "IterBinomial: " + str(((ob.cex or {}).get("replay") or {}).get("mismatch")) + "; " + r.get("note", "")
            return r
    rep = (ob.cex or {}).get("replay") or {}
    return {"confirmed_on_real_code": True, "expected": {"IterBinomial": "Pascal's triangle"}, "actual": {"IterBinomial": rep.get("mismatch")},
            "note": "no public-API history of orders 5, 6, 8 shows the difference; the mechanically extracted function text (verbatim bodies) run natively does"}
