"""Exact reference statistics (Fractions) and the comparison used to CONFIRM a counterexample on
the real f64 code.  Only used for replay confirmation and the known-answer guard, never as proof."""
import math
from fractions import Fraction

NANV = "nan"


def F(x):
    return Fraction(x)


def flatten_moment_prog(prog):
    """All observations absorbed by a moment-family / min-max program (adds, extends, merges)."""
    xs = []
    c = prog.get("ctor", ["new"])
    if c[0] in ("collect", "collect_ref"):
        xs += list(c[1])
    if c[0] == "from_value":
        xs.append(c[1])
    for op in prog.get("ops", []):
        if op[0] == "add":
            xs.append(op[1])
        elif op[0] == "add2":
            xs.append((op[1], op[2]))
        elif op[0] in ("extend", "extend_ref"):
            xs += list(op[1])
        elif op[0] == "merge":
            xs += flatten_moment_prog(op[1])
    return xs


def central(xs, p):
    n = len(xs)
    mu = sum(xs) / n
    return sum((x - mu) ** p for x in xs) / n


def sqrtf(fr):
    return math.sqrt(float(fr))


def moment_stats(xs):
    """Expected value of every accessor of the moment family for data xs (list of Fractions).
    Values: Fraction | float (roots) | 'nan' | ('panic',)"""
    n = len(xs)
    out = {"len": n, "is_empty": n == 0}
    if n == 0:
        for k in ("mean", "population_variance", "sample_variance", "variance_of_mean", "error", "error_mean",
                  "skewness", "kurtosis", "sample_skewness", "sample_excess_kurtosis", "estimate_mean"):
            out[k] = NANV
        for p in range(0, 11):
            out["central_moment(%d)" % p] = Fraction(1) if p == 0 else Fraction(0) if p == 1 else NANV
        out["standardized_moment(0)"] = Fraction(0)
        out["standardized_moment(1)"] = Fraction(0)
        out["standardized_moment(2)"] = Fraction(1)
        return out
    mu = sum(xs) / n
    m = {p: central(xs, p) for p in range(0, 11)}
    out["mean"] = mu
    out["population_variance"] = m[2]
    out["sample_variance"] = m[2] * n / (n - 1) if n >= 2 else NANV
    out["variance_of_mean"] = (m[2] / (n - 1)) if n >= 2 else Fraction(0)
    vm = out["variance_of_mean"]
    out["error"] = sqrtf(vm)
    out["error_mean"] = out["error"]
    if m[2] == 0:
        out["skewness"] = Fraction(0)
        out["kurtosis"] = Fraction(0)
    else:
        out["skewness"] = float(m[3]) / float(m[2]) ** 1.5
        out["kurtosis"] = m[4] / m[2] ** 2 - 3
    for p in range(0, 11):
        out["central_moment(%d)" % p] = m[p] if p != 1 else Fraction(0)
    out["standardized_moment(0)"] = Fraction(n)
    out["standardized_moment(1)"] = Fraction(0)
    out["standardized_moment(2)"] = Fraction(1)
    for p in range(3, 11):
        out["standardized_moment(%d)" % p] = ("panic",) if m[2] == 0 else float(m[p]) / float(m[2]) ** (p / 2.0)
    # bias-corrected statistics (C10)
    if n == 1:
        out["sample_skewness"] = Fraction(0)
    elif m[2] == 0:
        out["sample_skewness"] = None   # not pinned down by the property for constant data
    elif n == 2:
        out["sample_skewness"] = Fraction(0)
    else:
        out["sample_skewness"] = math.sqrt(n * (n - 1)) / (n - 2) * float(m[3]) / float(m[2]) ** 1.5
    if n < 4:
        out["sample_excess_kurtosis"] = NANV
    elif m[2] == 0:
        out["sample_excess_kurtosis"] = None
    else:
        out["sample_excess_kurtosis"] = Fraction(n - 1, (n - 2) * (n - 3)) * ((n + 1) * (m[4] / m[2] ** 2 - 3) + 6)
    return out


def close(actual, expected, rel=1e-9):
    """Is the f64 `actual` an acceptable value for the exact `expected`?  (well-conditioned corpora only)"""
    if expected is None:
        return True
    if expected == NANV:
        return isinstance(actual, float) and actual != actual
    if isinstance(expected, tuple):
        return False
    if isinstance(expected, bool):
        return actual is expected
    if isinstance(actual, bool):
        return False
    if actual is None:
        return False
    if isinstance(actual, float) and actual != actual:
        return False
    e = float(expected)
    if isinstance(expected, int) and not isinstance(actual, float):
        return actual == expected
    return abs(float(actual) - e) <= rel * max(1.0, abs(e))


def compare(res, expected, keys):
    """-> list of (key, expected, actual) mismatches for a replay result."""
    bad = []
    for k in keys:
        e = expected.get(k)
        if isinstance(e, tuple) and e[0] == "panic":
            continue
        a = res["obs"].get(k)
        if not close(a, e):
            bad.append((k, str(e), repr(a)))
    return bad
