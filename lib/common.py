"""Shared plumbing: obligations, evidence, known findings, exit codes.

Exit codes of a check:  0 = every counted obligation discharged (known findings announced),
1 = at least one obligation REFUTED that known_findings.json does not list,
2 = could not decide (timeout, unknown, lost anchor, unsupported construct, tool failure).
"""
import fnmatch
import hashlib
import json
import os
import re
import subprocess
import sys
import time

VERIF = os.path.dirname(os.path.dirname(os.path.abspath(__file__)))
REPO = os.environ.get("VERIF_REPO", "/repo")
RSX = os.path.join(VERIF, "tools/rsx/target/release/rsx")
PY = "/opt/veriftools/pyvenv/bin/python"

DISCHARGED, REFUTED, UNDECIDED = "discharged", "refuted", "undecided"


class Undecided(Exception):
    """The machinery cannot decide (lost anchor, unsupported construct, tool failure)."""


class Obligation:
    def __init__(self, name, function, backend, status, time_s=0.0, detail="", cex=None,
                 bounded=None, text=None, kind="contract"):
        self.name = name            # e.g. C14.Min.add.contract
        self.function = function    # source function under contract (file::fn)
        self.backend = backend      # sympy | z3-5.1 | cbmc-6.11/cadical | verus | rustc | structural
        self.status = status
        self.time_s = time_s
        self.detail = detail        # solver reason / failing check description
        self.cex = cex              # dict: counterexample (model / playback) if any
        self.bounded = bounded      # None, or a string stating the bound (never counted as proved)
        self.text = text            # the obligation written out (smt2 / formula / harness name)
        self.kind = kind            # contract | vacuity | lemma | bounded

    def as_dict(self):
        d = {"name": self.name, "function": self.function, "backend": self.backend,
             "status": self.status, "time_s": round(self.time_s, 3)}
        if self.detail:
            d["detail"] = self.detail[:2000]
        if self.bounded:
            d["bounded"] = self.bounded
        if self.cex is not None:
            d["counterexample"] = self.cex
        return d


def sha256_file(path):
    h = hashlib.sha256()
    with open(path, "rb") as f:
        h.update(f.read())
    return h.hexdigest()


def source_hashes(files):
    out = {}
    for f in files:
        p = os.path.join(REPO, f)
        if os.path.exists(p):
            out[f] = sha256_file(p)
    return out


def run(cmd, timeout, cwd=None, env=None, input=None):
    """Run a tool under a hard timeout.  Returns (rc, stdout+stderr, seconds); rc=None on timeout."""
    t0 = time.time()
    e = dict(os.environ)
    e["CARGO_NET_OFFLINE"] = "true"
    if env:
        e.update(env)
    try:
        p = subprocess.run(cmd, cwd=cwd, env=e, input=input, stdout=subprocess.PIPE,
                           stderr=subprocess.STDOUT, timeout=timeout, text=True)
        return p.returncode, p.stdout, time.time() - t0
    except subprocess.TimeoutExpired as ex:
        out = ex.stdout or ""
        if isinstance(out, bytes):
            out = out.decode("utf-8", "replace")
        # make sure no orphan keeps running
        subprocess.run(["pkill", "-f", "cbmc --"], stdout=subprocess.DEVNULL, stderr=subprocess.DEVNULL) \
            if "kani" in " ".join(cmd) else None
        return None, out, time.time() - t0


def load_known_findings():
    p = os.path.join(VERIF, "known_findings.json")
    if not os.path.exists(p):
        return {"findings": [], "fixed": []}
    with open(p) as f:
        return json.load(f)


def match_known(prop, ob, known):
    """A refuted obligation is a known finding iff property and obligation pattern match and
    every key of `when` is matched by the counterexample's classification."""
    for k in known.get("findings", []):
        if k.get("status", "open") != "open":
            continue
        if k["property"] != prop:
            continue
        if not fnmatch.fnmatchcase(ob.name, k["obligation"]):
            continue
        cls = (ob.cex or {}).get("class", {})
        when = k.get("when_class", {})
        if all(cls.get(a) == b for a, b in when.items()):
            return k
    return None


def safe_name(s):
    s = s.replace(">=", "ge").replace("<=", "le").replace(">", "gt").replace("<", "lt").replace("=", "eq")
    return re.sub(r"[^A-Za-z0-9_.\-\[\]]+", "_", s)


def write_replay(prop, ob, extra=None):
    d = os.path.join(VERIF, "replays", prop)
    os.makedirs(d, exist_ok=True)
    path = os.path.join(d, safe_name(ob.name) + ".json")
    rec = {"property": prop, "obligation": ob.name, "source": ob.function, "backend": ob.backend,
           "verdict": ob.status, "solver_output": ob.detail, "counterexample": ob.cex}
    if extra:
        rec.update(extra)
    with open(path, "w") as f:
        json.dump(rec, f, indent=1, default=str)
    return path


def assumption_scan():
    """Mechanical scan (every run) of the contract files this run used for everything that is assumed rather than
    proved: kani::assume preconditions, stubs, Verus trust tokens.  Reported verbatim in the evidence."""
    import re as _re
    out = {"files": [], "kani_assume": [], "kani_stub": [], "verus_trusted": []}
    try:
        import kani_engine
        files = sorted(kani_engine.USED_FILES)
    except Exception:
        files = []
    for f in files:
        try:
            src = open(f).read()
        except OSError:
            continue
        out["files"].append(os.path.relpath(f, VERIF))
        for k, line in enumerate(src.split("\n")):
            code = line.split("//")[0].strip()
            if "kani::assume(" in code:
                out["kani_assume"].append("%s:%d: %s" % (os.path.basename(f), k + 1, code[:160]))
            if _re.search(r"kani::stub\(|stub_verified\(", code):
                out["kani_stub"].append("%s:%d: %s" % (os.path.basename(f), k + 1, code[:160]))
    try:
        import vl
        if vl.USED:
            out["files"].append(os.path.relpath(vl.LEMMA_FILE, VERIF))
            out["verus_trusted"] = vl.trusted_tokens()
    except Exception:
        pass
    out["counts"] = {"kani_assume": len(out["kani_assume"]), "kani_stub": len(out["kani_stub"]), "verus_trusted": len(out["verus_trusted"])}
    out["kani_assume"] = out["kani_assume"][:60]
    return out


def guarded(unit, fn):
    """Run one engine of a check.  An unsupported construct, lost anchor or internal error in THIS engine becomes one
    undecided obligation instead of aborting the whole check, so that it can never mask a refutation by another engine."""
    import traceback
    try:
        return fn()
    except Undecided as ex:
        return [Obligation(unit, unit, "engine", UNDECIDED, 0.0, str(ex)[:600])]
    except Exception:
        return [Obligation(unit, unit, "engine", UNDECIDED, 0.0,
                           "internal error in this engine (not a verdict about the code): " + traceback.format_exc()[-500:])]


def finish(prop, tier, seed, obligations, meta, t0, confirm=None):
    """Classify results, print lines, write evidence, return exit code.

    meta: dict with functions_under_contract, assumptions, trusted_base, checker_cmd, level,
          explanation, source_files, dropped (what extraction drops), notes.
    confirm: optional callable(ob) -> dict(program=..., confirmed=bool, actual=..., expected=...) run
          on refuted obligations to replay the counterexample on the real code.
    """
    known = load_known_findings()
    counted = [o for o in obligations if not o.bounded]
    bounded = [o for o in obligations if o.bounded]
    refuted = [o for o in obligations if o.status == REFUTED]
    undecided = [o for o in obligations if o.status == UNDECIDED and o.kind != "advisory"]
    lines = []
    violations = 0
    announced = []
    n_confirm = 0
    by_function = {}
    cap = getattr(confirm, "max_calls", 4)     # replay searches are capped; a confirm that only looks up a recorded replay is not
    for o in refuted:
        extra = None
        if confirm is not None and n_confirm >= cap and o.function in by_function:
            extra = dict(by_function[o.function], note="replay shared with another failed obligation of the same function")
        elif confirm is not None and n_confirm < cap:
            n_confirm += 1
            try:
                extra = confirm(o)
                if extra and extra.get("confirmed_on_real_code"):
                    by_function.setdefault(o.function, extra)
            except Exception as ex:  # replay search must never mask the verdict
                extra = {"replay_error": repr(ex)}
        k = match_known(prop, o, known)
        path = write_replay(prop, o, extra)
        if k is not None:
            announced.append(o.name)
            lines.append("KNOWN-FINDING: property=%s %s (%s; obligation %s)" % (
                prop, k.get("what", ""), k.get("when", ""), o.name))
            continue
        violations += 1
        confirmed = bool(extra and extra.get("confirmed_on_real_code"))
        tail = "" if confirmed else " no-failing-input-found"
        lines.append("VIOLATION property=%s replay=%s%s" % (prop, path, tail))
        lines.append("  failed obligation: %s [%s] %s" % (o.name, o.backend, (o.detail or "")[:300].replace("\n", " ")))
    for o in undecided:
        lines.append("UNDECIDED property=%s obligation=%s [%s] %s" % (
            prop, o.name, o.backend, (o.detail or "")[:300].replace("\n", " ")))
    by_backend = {}
    for o in counted:
        if o.status == DISCHARGED:
            by_backend[o.backend] = by_backend.get(o.backend, 0) + 1
    solver_time = sum(o.time_s for o in obligations)
    samples = []
    for o in obligations[:]:
        if o.text and len(samples) < 6:
            samples.append({"obligation": o.name, "function": o.function, "backend": o.backend,
                            "status": o.status, "text": o.text[:1500]})
    if not samples:
        samples = [o.as_dict() for o in obligations[:4]]
    level = meta.get("level", "proof")
    cov = {
        "obligations": len(counted),
        "discharged": sum(1 for o in counted if o.status == DISCHARGED),
        "refuted": len([o for o in counted if o.status == REFUTED]),
        "undecided": len([o for o in counted if o.status == UNDECIDED]),
        "checker_cmd": meta.get("checker_cmd", "./check %s" % prop),
        "trusted_base": meta.get("trusted_base", []),
        "by_backend": by_backend,
        "solver_time_s": round(solver_time, 2),
        "functions_under_contract": meta.get("functions_under_contract", []),
        "extraction": meta.get("extraction", ""),
        "bounded": [{"name": o.name, "bound": o.bounded, "status": o.status, "backend": o.backend}
                    for o in bounded],
        "known_findings_announced": announced,
        "source_sha256": source_hashes(meta.get("source_files", [])),
        "obligation_list": [o.as_dict() for o in obligations],
        "samples": samples,
        "explanation": meta.get("explanation", ""),
        "evaluations": len(obligations),
        "distinct_nontrivial": len({o.name for o in obligations}),
        "rule": "one evaluation = one named proof obligation generated from /repo's current source; "
                "all are distinct by name; vacuity/cover obligations are included in the count",
    }
    cov["assumption_scan"] = assumption_scan()
    ev = {"property_id": prop, "tier": tier, "seed": seed, "level": level, "coverage": cov,
          "assumptions": meta.get("assumptions", []), "wall_s": round(time.time() - t0, 2),
          "violations": violations}
    # development tools (lib/mutate.py, lib/seedtest.py) redirect evidence so that committed evidence always
    # comes from runs against /repo itself
    evdir = os.environ.get("VERIF_EVIDENCE_DIR") or os.path.join(VERIF, "evidence")
    os.makedirs(evdir, exist_ok=True)
    with open(os.path.join(evdir, prop + ".json"), "w") as f:
        json.dump(ev, f, indent=1, default=str)
    for ln in lines:
        print(ln)
    print("%s tier=%s: %d obligations, %d discharged, %d refuted (%d known), %d undecided, %d bounded; %.1fs" % (
        prop, tier, len(counted), cov["discharged"], len(refuted), len(announced), len(undecided),
        len(bounded), time.time() - t0))
    sys.stdout.flush()
    if violations:
        return 1
    if undecided:
        return 2
    if not counted and not bounded:
        print("UNDECIDED property=%s: no obligations were generated (vacuous run)" % prop)
        return 2
    return 0
