"""./check driver."""
import importlib
import json
import os
import sys
import time
import traceback

sys.path.insert(0, os.path.dirname(os.path.abspath(__file__)))
sys.path.insert(0, os.path.join(os.path.dirname(os.path.dirname(os.path.abspath(__file__))), "props"))
sys.path.insert(0, os.path.join(os.path.dirname(os.path.dirname(os.path.abspath(__file__))), "rs"))
import common
from common import Undecided, finish


def main(argv):
    if not argv:
        print("usage: ./check <Cxx> [--tier quick|thorough] | replay <file>")
        return 2
    if argv[0] == "replay":
        import replay
        return replay.main(argv[1:])
    prop = argv[0].upper()
    tier = os.environ.get("VERIF_TIER", "quick")
    if "--tier" in argv:
        tier = argv[argv.index("--tier") + 1]
    if tier not in ("quick", "thorough"):
        tier = "quick"
    seed = int(os.environ.get("VERIF_SEED", "0") or 0)
    t0 = time.time()
    if not os.path.exists(common.RSX):
        print("UNDECIDED property=%s: rsx not built (run MANIFEST.setup_cmd)" % prop)
        return 2
    try:
        mod = importlib.import_module(prop.lower())
    except ImportError as ex:
        print("no check registered for %s (%s)" % (prop, ex))
        return 2
    try:
        obligations, meta, confirm = mod.run(tier, seed)
    except Undecided as ex:
        print("UNDECIDED property=%s: %s" % (prop, ex))
        return 2
    except Exception:
        traceback.print_exc()
        print("UNDECIDED property=%s: internal error in the checker (not a verdict about the code)" % prop)
        return 2
    return finish(prop, tier, seed, obligations, meta, t0, confirm)


if __name__ == "__main__":
    sys.exit(main(sys.argv[1:]))
