"""Soundness guard for engine RS: the executor's semantics against the compiled crate.

RS executes the real function bodies (syn AST) under its own semantics for Rust's operators, control flow and the
library models listed in DESIGN.md 3.1.  A modelling error there would make obligations pass for the wrong reason.
On every run the executor is therefore also run CONCRETELY (all inputs numbers, every branch decided by evaluation,
no solver) on short histories, and every statistic is compared with what the compiled crate computes for the same
history (native replay).  The two differ by rounding only (exact reals vs f64): agreement within 1e-9 relative is
required.  A mismatch is an *undecided* guard obligation (the engine cannot be trusted on this run), never a verdict
about the code."""
import math
from fractions import Fraction as Fr

from common import Obligation, DISCHARGED, UNDECIDED


def evalf(t):
    """numeric value of a closed term (or None for NaN-tagged / symbolic terms)"""
    from terms import T
    if not isinstance(t, T):
        return None
    op = t.op
    if op == "num":
        return float(t.args[0])
    a = [evalf(x) if isinstance(x, T) else x for x in t.args]
    if any(v is None for v in a):
        return None
    try:
        if op == "add": return a[0] + a[1]
        if op == "sub": return a[0] - a[1]
        if op == "mul": return a[0] * a[1]
        if op == "div": return a[0] / a[1]
        if op == "neg": return -a[0]
        if op == "pow": return a[0] ** a[1]
        if op == "sqrt": return math.sqrt(a[0])
    except (ZeroDivisionError, ValueError, OverflowError):
        return None
    return None


XS = [Fr(1, 2), Fr(3), Fr(-5, 4), Fr(7), Fr(2), Fr(2), Fr(-3, 8), Fr(11, 2), Fr(9), Fr(1, 4), Fr(6), Fr(-2)]
WS = [Fr(1), Fr(1, 2), Fr(3), Fr(2), Fr(1, 4), Fr(5), Fr(1), Fr(3, 2), Fr(2), Fr(1, 8), Fr(4), Fr(1)]


def _run_rs(cr, ty, ctor_args, arity, accs, n_items, cut, has_merge=True):
    """new(); add x0..x_{cut-1}; other = new(); add x_cut..; merge; accessors  ->  list of floats / None"""
    from executor import Exec
    from terms import T, REAL, UINT

    def items(lo, hi):
        return [([T.num(XS[i], REAL)] if arity == 1 else [T.num(XS[i], REAL), T.num(WS[i], REAL)]) for i in range(lo, hi)]

    def body(e, r):
        a = e.call(ty, "new", None, list(ctor_args))
        for it in items(0, cut):
            e.call(ty, "add", a, it)
        if cut < n_items and not has_merge:
            for it in items(cut, n_items):
                e.call(ty, "add", a, it)
        elif cut < n_items:
            b = e.call(ty, "new", None, list(ctor_args))
            for it in items(cut, n_items):
                e.call(ty, "add", b, it)
            e.call(ty, "merge", a, [b])
        return [e.call(ty, name, a, [T.num(x, UINT) for x in args]) for name, args in accs]
    paths = Exec(cr).run(lambda: ({}, []), body)
    if len(paths) != 1 or paths[0].panic:
        return None
    return [evalf(v) for v in paths[0].result]


def crosscheck(prop, types):
    """types: labels among Mean, Variance, Skewness, Kurtosis, Moments6, WeightedMean, WeightedMeanWithError, Covariance"""
    import replay
    import moments_rs as mr
    def _mom6():
        return mr.load_moments_crate(6)

    def _wm():
        import c08
        return c08.load(), None

    def _cov():
        from executor import Crate
        cr_ = Crate()
        cr_.load_file("src/covariance.rs")
        return cr_, None

    def _qu():
        import quantile_rs
        return quantile_rs.load(), None
    # label -> (RS type or None = from loader, replay type, arity, accessors, loader, ctor args (Fractions), has merge)
    specs = {
        "Mean": ("Mean", "Mean", 1, [("mean", [])], None, [], True),
        "Variance": ("Variance", "Variance", 1, [("mean", []), ("sample_variance", []), ("population_variance", []), ("error", [])], None, [], True),
        "Skewness": ("Skewness", "Skewness", 1, [("mean", []), ("population_variance", []), ("skewness", [])], None, [], True),
        "Kurtosis": ("Kurtosis", "Kurtosis", 1, [("mean", []), ("sample_variance", []), ("skewness", []), ("kurtosis", [])], None, [], True),
        "Moments6": (None, "M6", 1, [("mean", []), ("sample_variance", []), ("central_moment", [3]), ("central_moment", [6]), ("standardized_moment", [5])], _mom6, [], True),
        "WeightedMean": ("WeightedMean", "WeightedMean", 2, [("mean", []), ("sum_weights", [])], _wm, [], True),
        "WeightedMeanWithError": ("WeightedMeanWithError", "WeightedMeanWithError", 2,
                                  [("weighted_mean", []), ("unweighted_mean", []), ("sum_weights_sq", []), ("effective_len", []), ("sample_variance", []), ("error", [])], _wm, [], True),
        "Covariance": ("Covariance", "Covariance", 2, [("mean_x", []), ("mean_y", []), ("population_covariance", []), ("sample_covariance", []), ("pearson", [])], _cov, [], True),
        "Quantile": ("Quantile", "Quantile", 1, [("quantile", [])], _qu, [Fr(3, 10)], False),
    }
    obs = []
    progs, plan = [], []
    n = len(XS)
    for label in types:
        if label not in specs:
            continue
        ty, rty, arity, accs, loader, cargs, has_merge = specs[label]
        for cut in (n, 5) if has_merge else (n, 3):
            def ops(lo, hi):
                return [["add", float(XS[i])] if arity == 1 else ["add2", float(XS[i]), float(WS[i])] for i in range(lo, hi)]
            ctor = ["new"] + [float(c) for c in cargs]
            prog = {"type": rty, "ctor": ctor, "ops": ops(0, cut), "observe": [[a] + list(args) if args else a for a, args in accs]}
            if cut < n and has_merge:
                prog["ops"] = ops(0, cut) + [["merge", {"type": rty, "ctor": ctor, "ops": ops(cut, n)}]]
            elif cut < n:
                prog["ops"] = ops(0, cut)        # a short history (the small-sample path of Quantile)
            progs.append(prog)
            plan.append((label, ty, arity, accs, cut, loader, cargs, has_merge))
    if not progs:
        return obs
    try:
        results = replay.run_programs(progs)
    except Exception as ex:
        return [Obligation("%s.RS.semantics_crosscheck" % prop, "rs/executor.py vs the compiled crate", "rs-executor+native-replay", UNDECIDED, 0.0,
                           "replay failed: %r" % ex, kind="vacuity")]
    crates = {}
    worst = {}
    from terms import T, REAL
    for (label, ty, arity, accs, cut, loader, cargs, has_merge), res in zip(plan, results):
        if label not in crates:
            if loader is None:
                crates[label] = (mr.load_crate(), ty)
            else:
                cr_, nm = loader()
                crates[label] = (cr_, nm or ty)
        try:
            cr_, tyname = crates[label]
            n_eff = n if (has_merge or cut == n) else cut
            got = _run_rs(cr_, tyname, [T.num(c, REAL) for c in cargs], arity, accs, n_eff, cut if has_merge else n_eff, has_merge)
        except Exception as ex:
            got = None
            err = repr(ex)[:200]
        name = "%s.RS.semantics_crosscheck.%s[%s]" % (prop, label, "add_only" if cut == n else "add_then_merge" if has_merge else "short_history")
        where = "rs/executor.py on %s::{new,add%s,accessors} vs the compiled crate" % (label, ",merge" if has_merge else "")
        if res.get("error") or got is None:
            obs.append(Obligation(name, where, "rs-executor+native-replay", UNDECIDED, 0.0,
                                  "could not compare: %s" % (res.get("error") or "RS concrete execution failed"), kind="vacuity"))
            continue
        bad = []
        for (a, args), g in zip(accs, got):
            key = a + ("(" + ",".join(str(x) for x in args) + ")" if args else "")
            r = res["obs"].get(key)
            if g is None or r is None or r != r:
                bad.append("%s: RS %r, crate %r" % (key, g, r))
                continue
            scale = max(abs(r), abs(g), 1e-300)
            rel = abs(g - r) / scale
            worst[label] = max(worst.get(label, 0.0), rel)
            if rel > 1e-9:
                bad.append("%s: RS %.17g, crate %.17g" % (key, g, r))
        if bad:
            obs.append(Obligation(name, where, "rs-executor+native-replay", UNDECIDED, 0.0,
                                  "the executor's semantics disagree with the compiled crate on a concrete history (%s): RS results of this run are not to be trusted" % "; ".join(bad[:3]),
                                  kind="vacuity"))
        else:
            obs.append(Obligation(name, where, "rs-executor+native-replay", DISCHARGED, 0.0,
                                  "%d statistics of a %d-observation history agree with the compiled crate (max relative difference %.1e: rounding)" % (
                                      len(accs), n if (has_merge or cut == n) else cut, worst.get(label, 0.0)), kind="vacuity",
                                  text="concrete run of the RS executor on the real AST == native run of the compiled crate (up to f64 rounding)"))
    return obs
