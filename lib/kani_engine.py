"""Engine K: Kani on a scratch copy of /repo's current working tree.

The scratch copy differs from /repo only by
  (a) #[cfg_attr(kani, kani::requires/ensures/modifies(..))] lines inserted above contracted fns
      (anchored on the syn item found by rsx, never on a line number),
  (b) `#[cfg(kani)] mod verif_kani { use super::*; include!("<contracts file>"); }` appended to the
      defining module (file end, or end of a macro_rules body for macro-generated modules),
  (c) `#[cfg(kani)]` instantiations of the crate's own macros appended to lib.rs.
All of it is guarded by cfg(kani); nothing in /repo is touched.
"""
import json
import os
import re
import shutil
import struct
import subprocess
import tempfile
import time

from common import (DISCHARGED, REFUTED, UNDECIDED, Obligation, Undecided, REPO, RSX, VERIF, run)

KDIR = os.path.join(VERIF, "contracts", "kani")

# Kani's default float instrumentation is not part of any property here (NaN/inf are legal values
# of this crate's arithmetic): these checks are recorded but not counted.
def _ignored_check(c):
    d = c.get("description", "")
    if d.startswith("NaN on ") or "floating-point" in d or "float" in c.get("category", "").lower():
        return True
    return False


def rsx_parse(path):
    p = subprocess.run([RSX, "parse", path], stdout=subprocess.PIPE, stderr=subprocess.PIPE, text=True)
    if p.returncode != 0:
        raise Undecided("rsx parse failed for %s: %s" % (path, p.stderr.strip()))
    return json.loads(p.stdout)


def find_fn(ast, target, trait, name):
    """Locate fn `name` in `impl [trait for] target`.  trait=None means inherent impl."""
    hits = []

    def walk(items):
        for it in items:
            if it["k"] == "impl" and it["target"].replace(" ", "") == target:
                tr = it["trait"]
                trn = tr.replace(" ", "").split("::")[-1] if tr else None
                if trn == trait:
                    for f in it["items"]:
                        if f["k"] == "fn" and f["name"] == name:
                            hits.append(f)
            elif it["k"] == "mod" and it.get("items"):
                walk(it["items"])
            elif it["k"] == "fn" and target is None and it["name"] == name:
                hits.append(it)
    walk(ast["items"])
    if len(hits) != 1:
        raise Undecided("lost anchor: %d matches for fn %s in impl %s for %s" % (len(hits), name, trait, target))
    return hits[0]


USED_FILES = set()     # contract files spliced into this run (for the mechanical assumption scan of the evidence)


class Harness:
    def __init__(self, name, obligation, function, bounded=None, expect_panic=False, text=None):
        self.name = name              # harness fn name (unique suffix of the full path)
        self.obligation = obligation  # obligation name reported
        self.function = function      # function(s) of /repo under contract
        self.bounded = bounded
        self.text = text
        self.expect_panic = expect_panic  # the call under test must not return: decided by an UNREACHABLE cover


class KaniJob:
    def __init__(self, prop, features="std", unwind=None, timeout=900, jobs=8, harness_timeout=None):
        self.prop = prop
        self.features = features
        self.timeout = timeout
        self.jobs = jobs
        self.appends = []        # (relfile, text)
        self.attr_inserts = []   # (relfile, target, trait, fn, [attr lines])
        self.macro_appends = []  # (relfile, macro_name, text)  inserted before the closing brace of the arm body
        self.macro_attr_inserts = []
        self.harnesses = []
        self.lint_relax = []     # (relfile, lint): `#![forbid(lint)]` -> `#![cfg_attr(not(kani), forbid(lint))]` in the scratch copy
        self.extra_flags = []
        self.harness_timeout = harness_timeout or max(60, timeout - 120)
        self.scratch = None
        self.log = ""

    # -- splicing -------------------------------------------------------------------------
    def include_module(self, relfile, contract_file, modname="verif_kani"):
        path = os.path.join(KDIR, contract_file)
        USED_FILES.add(path)
        if not os.path.exists(path):
            raise Undecided("missing contract file " + path)
        self.appends.append((relfile, '\n#[cfg(kani)]\npub(crate) mod %s {\n    #![allow(unused)]\n    use super::*;\n    include!("%s");\n}\n' % (modname, path)))

    def include_in_macro(self, relfile, macro_name, contract_file, modname="verif_kani", prelude=""):
        path = os.path.join(KDIR, contract_file)
        USED_FILES.add(path)
        if not os.path.exists(path):
            raise Undecided("missing contract file " + path)
        self.macro_appends.append((relfile, macro_name,
            '\n#[cfg(kani)]\nmod %s {\n    #![allow(unused)]\n    use super::*;\n    %s\n    include!("%s");\n}\n' % (modname, prelude, path)))

    def append(self, relfile, text):
        self.appends.append((relfile, text))
        for m in re.finditer(r'include!\("([^"]+)"\)', text):
            USED_FILES.add(m.group(1))

    def relax_lint(self, relfile, lint):
        """Harness code may need what a crate-level `forbid` lint rejects (raw reads of a struct's words).  Lints are
        not semantics: under cfg(kani) only, in the scratch copy only, the forbid is lifted.  Absent line: nothing to do."""
        self.lint_relax.append((relfile, lint))

    def contract(self, relfile, target, trait, fn, attrs):
        self.attr_inserts.append((relfile, target, trait, fn, attrs))

    def contract_in_macro(self, relfile, macro, substs, target, trait, fn, attrs):
        """Contract attributes on a fn that lives inside a macro_rules body (line taken from the instantiated AST,
        whose spans are those of the original file)."""
        self.macro_attr_inserts.append((relfile, macro, substs, target, trait, fn, attrs))

    def add(self, *hs):
        self.harnesses.extend(hs)

    def _apply(self, root):
        # attribute inserts first (line anchored on the pristine file), bottom-up per file
        by_file = {}
        for (rel, target, trait, fn, attrs) in self.attr_inserts:
            ast = rsx_parse(os.path.join(root, rel))
            f = find_fn(ast, target, trait, fn)
            by_file.setdefault(rel, []).append((f["first_ln"], attrs))
        for (rel, macro, substs, target, trait, fn, attrs) in self.macro_attr_inserts:
            p = subprocess.run([RSX, "expand", os.path.join(root, rel), macro] + ["%s=%s" % kv for kv in substs.items()],
                               stdout=subprocess.PIPE, stderr=subprocess.PIPE, text=True)
            if p.returncode != 0:
                raise Undecided("rsx expand failed for %s!: %s" % (macro, p.stderr.strip()))
            f = find_fn(json.loads(p.stdout), target, trait, fn)
            by_file.setdefault(rel, []).append((f["first_ln"], attrs))
        for rel, ins in by_file.items():
            p = os.path.join(root, rel)
            lines = open(p).read().split("\n")
            for (ln, attrs) in sorted(ins, key=lambda t: -t[0]):
                indent = re.match(r"\s*", lines[ln - 1]).group(0)
                lines[ln - 1:ln - 1] = [indent + "#[cfg_attr(kani, %s)]" % a for a in attrs]
            open(p, "w").write("\n".join(lines))
        for (rel, macro, text) in self.macro_appends:
            p = os.path.join(root, rel)
            src = open(p).read()
            ast = rsx_parse(p)
            cands = [it for it in ast["items"] if it["k"] == "item_macro" and it["name"] == "macro_rules"
                     and it.get("ident") == macro]
            if len(cands) != 1:
                raise Undecided("lost anchor: macro_rules! %s in %s (%d matches)" % (macro, rel, len(cands)))
            end_ln = cands[0]["end_ln"]
            lines = src.split("\n")
            # the item ends with `}` (macro_rules! name { (..) => { body }; }): insert before the arm's closing brace
            k = end_ln - 1
            if lines[k].strip() != "}":
                raise Undecided("lost anchor: end of macro_rules! %s" % macro)
            j = k - 1
            while j >= 0 and lines[j].strip() == "":
                j -= 1
            if lines[j].strip() not in ("};", "}"):
                raise Undecided("lost anchor: arm end of macro_rules! %s: %r" % (macro, lines[j]))
            lines[j:j] = text.split("\n")
            open(p, "w").write("\n".join(lines))
        for (rel, text) in self.appends:
            with open(os.path.join(root, rel), "a") as f:
                f.write(text)
        for (rel, lint) in self.lint_relax:
            p = os.path.join(root, rel)
            src = open(p).read()
            src = re.sub(r"#!\[forbid\(%s\)\]" % re.escape(lint), "#![cfg_attr(not(kani), forbid(%s))]" % lint, src)
            open(p, "w").write(src)

    # -- running --------------------------------------------------------------------------
    def run(self):
        """Returns list of Obligation (one per harness, plus one `cover` vacuity obligation each)."""
        scratch = tempfile.mkdtemp(prefix="vk_%s_" % self.prop, dir=os.environ.get("VERIF_SCRATCH", "/tmp"))
        self.scratch = scratch
        try:
            return self._run(scratch)
        finally:
            shutil.rmtree(scratch, ignore_errors=True)

    def _cmd(self, root, names, out_json, playback=False):
        cmd = ["cargo", "kani", "--no-default-features", "--features", self.features,
               "-Z", "unstable-options", "-Z", "function-contracts", "-Z", "stubbing"]
        if playback:
            cmd += ["-Z", "concrete-playback", "--concrete-playback=print"]
        else:
            cmd += ["--export-json", out_json, "-j", str(self.jobs), "--output-format", "terse",
                    "--harness-timeout", "%ds" % self.harness_timeout]
        cmd += self.extra_flags
        for n in names:
            cmd += ["--harness", n]
        return cmd

    def _run(self, root):
        r = subprocess.run(["rsync", "-a", "--exclude", "target", "--exclude", ".git", REPO + "/", root + "/"])
        if r.returncode != 0:
            raise Undecided("rsync of /repo failed")
        self._apply(root)
        names = [h.name for h in self.harnesses]
        if len(set(names)) != len(names):
            raise Undecided("duplicate harness names")
        out_json = os.path.join(root, "kani_out.json")
        rc, out, secs = run(self._cmd(root, names, out_json), self.timeout, cwd=root)
        self.log = out
        obs = []
        if rc is None:
            # global timeout: everything undecided
            for h in self.harnesses:
                obs.append(Obligation(h.obligation, h.function, "cbmc-6.11/cadical", UNDECIDED, secs,
                                      "timeout after %ds" % self.timeout, bounded=h.bounded, text=h.text))
            return obs
        if not os.path.exists(out_json):
            # compile error in the spliced crate => cannot decide (lost anchor / renamed field)
            msg = "\n".join([l for l in out.split("\n") if l.startswith("error") or "-->" in l][:12])
            raise Undecided("cargo kani produced no results (build failure?):\n" + (msg or out[-1500:]))
        data = json.load(open(out_json))
        results = {r["harness_id"]: r for r in data["verification_results"]["results"]}
        stats = {c["harness_id"]: c.get("cbmc_stats", {}) for c in data.get("cbmc", [])}
        for h in self.harnesses:
            hid = [k for k in results if k == h.name or k.endswith("::" + h.name)]
            if len(hid) != 1:
                obs.append(Obligation(h.obligation, h.function, "cbmc-6.11/cadical", UNDECIDED, 0,
                                      "harness %s not found in Kani results (%d matches)" % (h.name, len(hid)),
                                      bounded=h.bounded, text=h.text))
                continue
            res = results[hid[0]]
            obs.extend(self._classify(root, h, hid[0], res, stats.get(hid[0], {})))
        return obs

    def _classify(self, root, h, hid, res, st):
        checks = res.get("checks", [])
        secs = res.get("duration_ms", 0) / 1000.0
        counted = [c for c in checks if not _ignored_check(c)]
        covers = [c for c in counted if c.get("category") == "cover"]
        must_not = [c for c in covers if "UNREACHABLE:" in c.get("description", "")]
        covers = [c for c in covers if c not in must_not]
        if h.expect_panic:
            return self._classify_panic(h, hid, res, covers, must_not)
        asserts = [c for c in counted if c.get("category") != "cover"]
        failed = [c for c in asserts if c["status"] == "Failure"]
        unwind_fail = [c for c in failed if c.get("category") == "unwind" or "unwinding assertion" in c.get("description", "")]
        undet = [c for c in asserts if c["status"] not in ("Success", "Failure", "Unreachable")]
        text = h.text or ("kani harness %s (%d checks counted, %d float-instrumentation checks ignored)" % (
            hid, len(counted), len(checks) - len(counted)))
        out = []
        backend = "cbmc-6.11/cadical"
        if not checks:
            out.append(Obligation(h.obligation, h.function, backend, UNDECIDED, secs,
                                  "no per-check results (status %s): harness timed out or CBMC failed" % res.get("status"),
                                  bounded=h.bounded, text=text))
            return out
        real_fail = [c for c in failed if c not in unwind_fail]
        if real_fail and not unwind_fail:
            c = real_fail[0]
            detail = "; ".join("%s @%s:%s [%s]" % (c["description"], c.get("location", {}).get("file"),
                                                  c.get("location", {}).get("line"), c.get("function")) for c in real_fail[:4])
            cex = self._playback(root, h)
            out.append(Obligation(h.obligation, h.function, backend, REFUTED, secs, detail, cex=cex,
                                  bounded=h.bounded, text=text))
        elif unwind_fail or undet:
            why = "unwinding assertion failed (bound too small)" if unwind_fail else \
                  "undetermined checks: " + "; ".join(c["description"] for c in undet[:3])
            out.append(Obligation(h.obligation, h.function, backend, UNDECIDED, secs, why,
                                  bounded=h.bounded, text=text))
        else:
            out.append(Obligation(h.obligation, h.function, backend, DISCHARGED, secs,
                                  "%d checks" % len(asserts), bounded=h.bounded, text=text))
        # vacuity guard: every cover! must be SATISFIED; a harness without covers is itself suspicious
        if not (real_fail and not unwind_fail):
            if not covers:
                out.append(Obligation(h.obligation + ".cover", h.function, backend, UNDECIDED, 0,
                                      "harness has no kani::cover! (vacuity guard missing)", bounded=h.bounded, kind="vacuity"))
            else:
                bad = [c for c in covers if c["status"] not in ("Satisfied", "Success")]
                if bad:
                    out.append(Obligation(h.obligation + ".cover", h.function, backend, UNDECIDED, 0,
                                          "cover not satisfied (vacuous harness?): " + "; ".join(
                                              "%s=%s" % (c["description"], c["status"]) for c in bad[:3]),
                                          bounded=h.bounded, kind="vacuity"))
                else:
                    out.append(Obligation(h.obligation + ".cover", h.function, backend, DISCHARGED, 0,
                                          "%d cover(s) satisfied" % len(covers), bounded=h.bounded, kind="vacuity"))
        return out

    def _classify_panic(self, h, hid, res, covers, must_not):
        """The operation must panic on every path: the cover placed after it must be unreachable."""
        secs = res.get("duration_ms", 0) / 1000.0
        backend = "cbmc-6.11/cadical"
        text = h.text or ("kani harness %s: cover after the call must be unreachable" % hid)
        out = []
        if not must_not or not covers:
            return [Obligation(h.obligation, h.function, backend, UNDECIDED, secs,
                               "expect_panic harness lacks its covers", bounded=h.bounded, text=text)]
        reached = [c for c in must_not if c["status"] in ("Satisfied", "Success")]
        unknown = [c for c in must_not if c["status"] not in ("Satisfied", "Success", "Unsatisfiable", "Unreachable", "Failure")]
        if reached:
            out.append(Obligation(h.obligation, h.function, backend, REFUTED, secs,
                                  "statement after the call is reachable: " + reached[0]["description"],
                                  cex={"note": "cover satisfied"}, bounded=h.bounded, text=text))
        elif unknown:
            out.append(Obligation(h.obligation, h.function, backend, UNDECIDED, secs,
                                  "cover status " + unknown[0]["status"], bounded=h.bounded, text=text))
        else:
            out.append(Obligation(h.obligation, h.function, backend, DISCHARGED, secs,
                                  "post-call cover %s" % must_not[0]["status"], bounded=h.bounded, text=text))
        bad = [c for c in covers if c["status"] not in ("Satisfied", "Success")]
        out.append(Obligation(h.obligation + ".cover", h.function, backend, UNDECIDED if bad else DISCHARGED, 0,
                              "pre-call cover " + ("not satisfied" if bad else "satisfied"), bounded=h.bounded, kind="vacuity"))
        return out

    def _playback(self, root, h):
        """Second run of the failing harness with concrete playback; decode kani::any() byte vectors."""
        rc, out, secs = run(self._cmd(root, [h.name], None, playback=True), min(self.timeout, 600), cwd=root)
        if rc is None:
            return {"playback": "timeout"}
        # Kani prints one unit test per failed check AND per satisfied cover; keep the failed checks only.
        tests = []
        for blk in out.split("Concrete playback unit test")[1:]:
            kind = re.search(r"/// Check for `(\w+)`: \"(.*?)\"?\n", blk, re.S)
            m = re.search(r"let concrete_vals: Vec<Vec<u8>> = vec!\[(.*?)\];", blk, re.S)
            if not m:
                continue
            is_cover = bool(kind and kind.group(1) == "cover")
            vals = []
            for cm, vec in re.findall(r"//\s*(.*?)\n\s*vec!\[([0-9,\s]*)\]", m.group(1)):
                bs = bytes(int(x) for x in vec.replace(" ", "").split(",") if x != "")
                rec = {"bytes": list(bs), "kani_comment": cm.strip()}
                if len(bs) == 8:
                    rec["as_f64"] = repr(struct.unpack("<d", bs)[0])
                    rec["as_u64"] = struct.unpack("<Q", bs)[0]
                    rec["as_i64"] = struct.unpack("<q", bs)[0]
                elif len(bs) in (1, 2, 4):
                    rec["as_uint"] = int.from_bytes(bs, "little")
                vals.append(rec)
            tests.append({"check": (kind.group(2)[:200] if kind else ""), "values": vals, "cover": is_cover})
        # failed-check traces first; traces of satisfied covers are only candidates (the replay decides)
        tests.sort(key=lambda t: t["cover"])
        if not tests:
            return {"playback": "none printed"}
        return {"playback_values": tests[0]["values"], "failed_check": tests[0]["check"],
                "candidate_from_cover_trace": tests[0]["cover"],
                "other_playbacks": tests[1:4], "harness": h.name}


def playback_floats(cex):
    """The kani::any::<f64>() values of a playback, in call order."""
    out = []
    for v in (cex or {}).get("playback_values", []):
        if "as_f64" in v:
            out.append(float(v["as_f64"]))
    return out
