"""Replay of counterexamples on the real crate.

A *program* is a small JSON description of API calls; it is compiled against /repo (path
dependency, default features) and executed natively.  Results come back as f64 bit patterns.

program := {"type": T, "ctor": ["new"] | ["new", p] | ["from_value", v] | ["from_ranges", [..]] |
                               ["with_const_width", a, b] | ["default"] | ["collect", [..]],
            "ops": [ ["add", x] | ["add2", x, y] | ["merge", program] | ["extend", [..]] |
                     ["add_assign", program] | ["mul_assign", k] | ["reset"] ],
            "observe": [ "mean" | ["central_moment", 3] | "bins" | "ranges" | ... ]}
Floats are Python floats (NaN / inf allowed) and are passed bit-exactly.
"""
import json
import math
import os
import re
import struct
import subprocess
import sys

from common import REPO, VERIF, run

CACHE = os.path.join(VERIF, ".cache", "replay")
CACHE_NIGHTLY = os.path.join(VERIF, ".cache", "replay_nightly")   # const-generic histogram (feature nightly, cargo +nightly)
CACHE_SERDE = os.path.join(VERIF, ".cache", "replay_serde")   # same, with the crate's `serde` feature and serde_json (float_roundtrip)


def uses_serde(prog):
    for op in prog.get("ops", []):
        if op[0] == "serde_roundtrip":
            return True
        if op[0] in ("merge", "add_assign") and uses_serde(op[1]):
            return True
    return False

MOMENT_TYPES = {"Moments4": None, "M4": 4, "M5": 5, "M6": 6, "M8": 8, "M10": 10}
HIST_TYPES = {"Histogram10": None, "H1": 1, "H2": 2, "H3": 3, "H4": 4, "H33": 33, "H100": 100}
CONST_HIST = {"HC1": 1, "HC2": 2, "HC3": 3, "HC4": 4}       # average::histogram_const::Histogram<LEN>


def uses_nightly(prog):
    if prog.get("type") in CONST_HIST:
        return True
    return any(op[0] in ("merge", "add_assign") and uses_nightly(op[1]) for op in prog.get("ops", []))


def bits(x):
    return struct.unpack("<Q", struct.pack("<d", float(x)))[0]


def from_bits(b):
    return struct.unpack("<d", struct.pack("<Q", b))[0]


def lit(x):
    if isinstance(x, bool):
        return "true" if x else "false"
    if isinstance(x, int) and not isinstance(x, bool):
        return "%d" % x
    return "f64::from_bits(0x%016x)" % bits(x)


def flist(xs):
    return "[" + ", ".join(lit(float(x)) for x in xs) + "]"


class Gen:
    def __init__(self):
        self.lines = []
        self.k = 0
        self.types = set()

    def fresh(self):
        self.k += 1
        return "e%d" % self.k

    def build(self, prog):
        t = prog["type"]
        self.types.add(t)
        v = self.fresh()
        c = prog.get("ctor", ["new"])
        tn = "hist_%s::Histogram" % t.lower() if t in HIST_TYPES and HIST_TYPES[t] else t
        if t in CONST_HIST:
            tn = "average::histogram_const::Histogram::<%d>" % CONST_HIST[t]
        if c[0] == "new":
            args = ", ".join(lit(float(a)) for a in c[1:])
            self.lines.append("let mut %s = %s::new(%s);" % (v, tn, args))
        elif c[0] == "default":
            self.lines.append("let mut %s: %s = Default::default();" % (v, tn))
        elif c[0] == "from_value":
            self.lines.append("let mut %s = %s::from_value(%s);" % (v, tn, lit(float(c[1]))))
        elif c[0] == "from_ranges":
            self.lines.append("let mut %s = match %s::from_ranges(%s.iter().cloned()) { Ok(h) => h, Err(e) => { println!(\"ctor_err={:?}\", e); return; } };" % (v, tn, "vec!" + flist(c[1])))
        elif c[0] == "with_const_width":
            self.lines.append("let mut %s = %s::with_const_width(%s, %s);" % (v, tn, lit(float(c[1])), lit(float(c[2]))))
        elif c[0] == "collect":
            self.lines.append("let mut %s: %s = %s.iter().cloned().collect();" % (v, tn, "vec!" + self._items(c[1])))
        elif c[0] == "collect_ref":
            self.lines.append("let mut %s: %s = %s.iter().collect();" % (v, tn, "vec!" + self._items(c[1])))
        elif c[0] in ("collect_opaque", "collect_ref_opaque"):
            # through an adaptor whose size_hint() lower bound is 0 (filter): glue must not trust size hints
            self.lines.append("let mut %s: %s = %s.iter()%s.filter(|_| true).collect();" % (
                v, tn, "vec!" + self._items(c[1]), ".cloned()" if c[0] == "collect_opaque" else ""))
        else:
            raise ValueError("ctor " + str(c))
        for op in prog.get("ops", []):
            if op[0] == "add":
                if t in HIST_TYPES or t in CONST_HIST:
                    self.lines.append("println!(\"add_result={:?}\", %s.add(%s).is_ok());" % (v, lit(float(op[1]))))
                else:
                    self.lines.append("%s.add(%s);" % (v, lit(float(op[1]))))
            elif op[0] == "add2":
                self.lines.append("%s.add(%s, %s);" % (v, lit(float(op[1])), lit(float(op[2]))))
            elif op[0] == "merge":
                o = self.build(op[1])
                self.lines.append("%s.merge(&%s);" % (v, o))
            elif op[0] == "add_assign":
                o = self.build(op[1])
                self.lines.append("%s += &%s;" % (v, o))
            elif op[0] == "mul_assign":
                self.lines.append("%s *= %du64;" % (v, op[1]))
            elif op[0] == "reset":
                self.lines.append("%s.reset();" % v)
            elif op[0] == "serde_roundtrip":
                # checkpoint / restore through serde_json (float_roundtrip): the stream continues on the restored copy
                self.lines.append("let mut %s: %s = { let js = serde_json::to_string(&%s).unwrap(); serde_json::from_str(&js).unwrap() };" % (v, tn, v))
            elif op[0] == "extend":
                self.lines.append("%s.extend(%s.iter().cloned());" % (v, "vec!" + self._items(op[1])))
            elif op[0] == "extend_ref":
                self.lines.append("%s.extend(%s.iter());" % (v, "vec!" + self._items(op[1])))
            else:
                raise ValueError("op " + str(op))
        return v

    def _items(self, xs):
        if xs and isinstance(xs[0], (list, tuple)):
            return "[" + ", ".join("(%s, %s)" % (lit(float(a)), lit(float(b))) for a, b in xs) + "]"
        return flist(xs) if xs else "[0f64; 0]"

    def observe(self, v, obs):
        for o in obs:
            if isinstance(o, str):
                name, args = o, []
            else:
                name, args = o[0], o[1:]
            key = name + ("(" + ",".join(str(a) for a in args) + ")" if args else "")
            call = "%s.%s(%s)" % (v, name, ", ".join(lit(a) for a in args))
            if name in ("len",):
                self.lines.append("println!(\"obs %s = int {}\", %s);" % (key, call))
            elif name in ("is_empty",):
                self.lines.append("println!(\"obs %s = bool {}\", %s);" % (key, call))
            elif name in ("bins",):
                self.lines.append("println!(\"obs %s = ints {:?}\", %s);" % (key, call))
            elif name in ("ranges",):
                self.lines.append("println!(\"obs %s = floats {:?}\", %s.iter().map(|x| x.to_bits()).collect::<Vec<u64>>());" % (key, call))
            elif name in ("find",):
                self.lines.append("println!(\"obs %s = find {:?}\", %s.ok());" % (key, call))
            elif name in ("widths", "centers", "normalized_bins", "variances"):
                self.lines.append("println!(\"obs %s = floats {:?}\", %s.map(|x| x.to_bits()).collect::<Vec<u64>>());" % (key, call))
            else:
                self.lines.append("println!(\"obs %s = f64 {}\", (%s).to_bits());" % (key, call))


def render_many(progs):
    decl_types = set()
    blocks = []
    for k, prog in enumerate(progs):
        g = Gen()
        v = g.build(prog)
        g.observe(v, prog.get("observe", []))
        decl_types |= g.types
        body = "\n            ".join(g.lines)
        blocks.append("""    println!("== %d");
    {
        let r = std::panic::catch_unwind(|| {
            %s
        });
        if let Err(e) = r {
            let msg = if let Some(s) = e.downcast_ref::<String>() { s.clone() } else if let Some(s) = e.downcast_ref::<&str>() { s.to_string() } else { "?".to_string() };
            println!("PANIC {}", msg.replace('\\n', " "));
        }
    }""" % (k, body))
    decl = []
    for t in sorted(decl_types):
        if t in MOMENT_TYPES and MOMENT_TYPES[t]:
            decl.append("mod mom_%s { use average::define_moments; define_moments!(%s, %d); }\nuse mom_%s::%s;" % (
                t.lower(), t, MOMENT_TYPES[t], t.lower(), t))
        if t in HIST_TYPES and HIST_TYPES[t]:
            decl.append("average::define_histogram!(hist_%s, %d);" % (t.lower(), HIST_TYPES[t]))
        if t == "ConcatMinMax":
            decl.append("average::concatenate!(ConcatMinMax, [Min, min], [Max, max]);")
    return """#![allow(unused_imports, unused_mut, unused_variables)]
use average::*;
%s
fn main() {
    std::panic::set_hook(Box::new(|_| {}));
%s
}
""" % ("\n".join(decl), "\n".join(blocks))


def render(prog):
    return render_many([prog])


def ensure_crate(serde=False, nightly=False):
    cache = CACHE_NIGHTLY if nightly else CACHE_SERDE if serde else CACHE
    os.makedirs(os.path.join(cache, "src"), exist_ok=True)
    toml = """[package]
name = "vreplay"
version = "0.0.0"
edition = "2021"

[features]
default = ["libm"]
libm = []
std = []

[dependencies]
average = { path = "%s"%s }
num-traits = { version = "0.2", default-features = false, features = ["libm"] }
%s
[workspace]
""" % (REPO, ', features = ["nightly"]' if nightly else ', features = ["serde"]' if serde else "",
       'serde = { version = "1", features = ["derive"] }\nserde-big-array = "0.5"\nserde_json = { version = "1", features = ["float_roundtrip"] }\n' if serde else "")
    p = os.path.join(cache, "Cargo.toml")
    if not os.path.exists(p) or open(p).read() != toml:
        open(p, "w").write(toml)
    lock = os.path.join(cache, "Cargo.lock")
    src = os.path.join(REPO, "Cargo.lock")
    if not os.path.exists(lock) and os.path.exists(src):
        # pin the versions the repository builds with (Cargo.lock is untracked in /repo, so it may be absent in a git worktree;
        # cargo then resolves offline from the registry cache)
        import shutil
        shutil.copy(src, lock)
    return cache


def _parse_block(text):
    res = {"obs": {}, "panic": None, "error": None, "lists": {}}
    for line in text.split("\n"):
        m = re.match(r"obs (.+?) = (\w+) (.*)$", line)
        if m:
            key, kind, val = m.groups()
            if kind == "f64":
                res["obs"][key] = from_bits(int(val))
            elif kind == "int":
                res["obs"][key] = int(val)
            elif kind == "bool":
                res["obs"][key] = (val == "true")
            elif kind == "ints":
                res["obs"][key] = [int(x) for x in re.findall(r"\d+", val)]
            elif kind == "floats":
                res["obs"][key] = [from_bits(int(x)) for x in re.findall(r"\d+", val)]
            elif kind == "find":
                mm = re.search(r"\d+", val)
                res["obs"][key] = int(mm.group(0)) if mm else None
        elif line.startswith("PANIC"):
            res["panic"] = line[6:]
        elif line.startswith("add_result="):
            res["lists"].setdefault("add_results", []).append(line.split("=")[1] == "true")
        elif line.startswith("ctor_err="):
            res["obs"]["ctor_err"] = line.split("=")[1]
    return res


def run_programs(progs, timeout=600):
    """Compile all programs into one binary against /repo's current tree and run it."""
    nightly = any(uses_nightly(p) for p in progs)
    cache = ensure_crate(serde=any(uses_serde(p) for p in progs), nightly=nightly)
    src = render_many(progs)
    if nightly:
        src = "#![feature(generic_const_exprs)]\n#![allow(incomplete_features)]\n" + src
    # the replay crate is shared by every check: serialise writers (checks may be run concurrently)
    import fcntl
    with open(os.path.join(cache, ".lock"), "w") as lk:
        fcntl.flock(lk, fcntl.LOCK_EX)
        try:
            open(os.path.join(cache, "src", "main.rs"), "w").write(src)
            rc, out, secs = run(["cargo"] + (["+nightly"] if nightly else []) + ["run", "--offline", "--quiet", "--release"], timeout, cwd=cache,
                                env={"RUSTFLAGS": "-Awarnings"})
        finally:
            fcntl.flock(lk, fcntl.LOCK_UN)
    if rc is None:
        return [{"obs": {}, "panic": None, "error": "timeout", "lists": {}, "raw": ""} for _ in progs]
    parts = re.split(r"^== (\d+)$", out, flags=re.M)
    got = {}
    for i in range(1, len(parts) - 1, 2):
        got[int(parts[i])] = parts[i + 1]
    results = []
    for k in range(len(progs)):
        if k in got:
            r = _parse_block(got[k])
        else:
            r = {"obs": {}, "panic": None, "error": "build/run failed rc=%s" % rc, "lists": {}}
        r["raw"] = out[-1500:] if r.get("error") else ""
        results.append(r)
    return results


def run_program(prog, timeout=300):
    return run_programs([prog], timeout)[0]


def main(argv):
    """./check replay <file>: re-execute the program of a replay file on the current tree."""
    if not argv:
        print("usage: ./check replay <file>")
        return 2
    rec = json.load(open(argv[0]))
    print("property   :", rec.get("property"))
    print("obligation :", rec.get("obligation"))
    print("source     :", rec.get("source"))
    print("verdict    :", rec.get("verdict"), "by", rec.get("backend"))
    prog = rec.get("program")
    if not prog:
        print("no concrete program recorded (no-failing-input-found); solver output:")
        print(rec.get("solver_output"))
        return 0
    res = run_program(prog)
    print("program    :", json.dumps(prog))
    print("expected   :", rec.get("expected"))
    print("actual     :", {k: repr(v) for k, v in res["obs"].items()}, "panic:", res["panic"])
    if res["error"]:
        print("replay error:", res["error"], res["raw"][-800:])
        return 2
    return 0
