"""Regenerates MANIFEST.json from the table below (run by hand after adding a check)."""
import json
import os

VERIF = os.path.dirname(os.path.dirname(os.path.abspath(__file__)))

RS_NOTE = ("Trusted / assumed: A-REAL (f64 treated as exact reals: the rounding envelope of the statement is NOT proved; it is only exercised by a bounded known-answer corpus listed under `bounded` in the evidence), "
           "A-INT (counts < 2^53), A-LIB (to_f64, sqrt, powf(.,1.5), pow, unwrap, clone as assumed contracts), "
           "own rsx + executor, sympy, z3 5.1 nlsat, Verus for the history lemma.")
RS_TECH = "contract-based deductive verification: own VC generator over the real function bodies (syn AST), sympy normal forms + z3 QF_NRA; Verus history lemmas"

CHECKS = {
    "C01": dict(engine="RS+VL", technique=RS_TECH, design="6/C01", note=RS_NOTE,
        text="rep(state, power sums) is preserved by Mean/Variance::add for an arbitrary symbolic summary (all n, all inputs) and every "
             "accessor equals the textbook statistic or its sentinel; Verus lemma_fold lifts this to every sequence and order. Exact-real "
             "semantics: a wrong coefficient, guard, n vs n-1 or update order fails a named obligation with a replayed input."),
    "C02": dict(engine="RS+VL+VU", technique=RS_TECH + "; Verus on the mechanically extracted IterBinomial::{new,next} (all n)", design="6/C02, 32", note=RS_NOTE,
        text="merge of Mean, Variance, Skewness, Kurtosis and define_moments! orders 4,5,6 (thorough: 8,10): for symbolic summaries Pa, Pb in "
             "all four emptiness cases the post-state represents Pa+Pb, len adds exactly, the argument is unchanged; Verus lemma_merge_tree "
             "gives every chunking, empty chunk and bracketing without enumeration."),
    "C03": dict(engine="RS+VL", technique=RS_TECH, design="6/C03", note=RS_NOTE + " A-REALIZABLE for the M2=0 shortcuts.",
        text="Terriberry updates of Skewness/Kurtosis proved against M3/M4 of the enlarged summary; skewness()/kurtosis() and the "
             "re-exported accessors proved against m3/m2^1.5, m4/m2^2-3 and the variance formulas (roots as r>=0, r^2=x)."),
    "C04": dict(engine="RS+VL+VU", technique=RS_TECH + "; Verus on the mechanically extracted IterBinomial::{new,next} (all n)", design="6/C04, 32", note=RS_NOTE + " Configurations: N in {4,5,6,8,10}; the binomial iterator is verified by Verus for every n (section 32).",
        text="define_moments! instantiated mechanically per order N; add proved against M_p of the enlarged summary for p=2..N, "
             "central_moment/standardized_moment for every p<=N, IterBinomial exact; complete per N (loop bounds are the macro parameter)."),
    "C06": dict(engine="K", technique="Kani proof harnesses on the real crate (symbolic valid edges, every f64 sample), unwinding assertions on", design="6/C06",
        text="find/add against the half-open-bin contract for fully symbolic valid edge vectors (infinite, repeated edges) and every f64 sample "
             "including NaN; frame over the whole count array; complete per LEN in {1,2,3,4} (thorough: 10, 100 for find, const-generic copy).",
        note="Trusted: CBMC IEEE-754 comparisons, Kani's compilation of core::slice::binary_search_by; counts < 2^40; per-LEN configuration list. LEN 33/100 in the quick tier only through a bounded linear-scan corpus; add is also proved modularly from find's Kani function contract (stub_verified)."),
    "C08": dict(engine="RS+VL", technique=RS_TECH, design="6/C08", note=RS_NOTE + " requires weights >= 0.",
        text="rep of (n,S1,S2,W,W2,WX) preserved by WeightedMean/WeightedMeanWithError add and merge in every emptiness-by-weight case "
             "(zero weight first included), no division by zero, all accessors against the weighted formulas."),
    "C09": dict(engine="RS+VL", technique=RS_TECH, design="6/C09", note=RS_NOTE,
        text="rep of (n,Sx,Sy,Sxx,Syy,Sxy) preserved by Covariance::add/merge; accessors against the textbook statistics; "
             "Cauchy-Schwarz proved as an inductive invariant so |pearson|<=1."),
    "C10": dict(engine="RS", technique=RS_TECH, design="6/C10", note=RS_NOTE + " A-REALIZABLE.",
        text="every bias-corrected accessor (sample_variance, variance_of_mean, error, sample_skewness, sample_excess_kurtosis) against its "
             "textbook definition for symbolic n at/above the minimum sample size, sentinels below; powf domain obligation catches NaN on negative skew."),
    "C12": dict(engine="K", technique="Kani proof harness against an oracle written from the statement; all input lists, all f64 bit patterns", design="6/C12",
        text="from_ranges compared with an in-harness oracle (first offending position, error kind, ranges identity, zero counts) for LEN+3 symbolic "
             "f64 and symbolic length; with_const_width: edges non-decreasing, first == start, bit-precise. Complete per LEN.",
        note="Trusted: CBMC float model; LEN in {1..4} (const width: {1,2} quick, {3,4} thorough); edge i = start + i*(end-start)/LEN is proved under exact reals (RS); 'within a few ulps' only by a bounded corpus (4 ulps, LEN up to 100)."),
    "C13": dict(engine="K+VL", technique="Kani proof harnesses (state-level bin-wise contracts), structural dominance check on the syn AST, Verus merge-tree lemma", design="6/C13",
        text="merge/+= bin-wise sum with edges kept and agreement, commutativity, empty identity, reset, *=, mismatch => the call does not return "
             "(post-call cover unreachable), iteration order/length; no-mutation-on-mismatch by 'asserts dominate writes' on the real AST.",
        note="Trusted: CBMC; counts < 2^40, multiplier < 2^20; float-valued views are decided under exact reals (RS) and bit-for-bit only on a bounded corpus; LEN list per tier."),
    "C05": dict(engine="RS", technique=RS_TECH + "; stage-wise contracts on the real body of Quantile::add against a clean-room P-square reference", design="6/C05",
        note=RS_NOTE + " A-SPEC: reference step transcribed from Jain & Chlamtac 1985. The composition of the four stage contracts over the stream is argued, not machine-checked.",
        text="Quantile::add (n>=5) is proved equal to the paper's step stage by stage (prologue; adjust marker 1,2,3), each from an arbitrary symbolic "
             "well-formed state, every height/position/desired position on every path, with well-formedness (n[0]=1, n[4]=count, increasing positions, ordered heights) preserved; "
             "new(), the fill phase and quantile()=middle marker are separate contracts."),
    "C07": dict(engine="RS", technique=RS_TECH, design="6/C07", note=RS_NOTE + " A-LIB: float_ord::sort, ceil, conv_nearest.",
        text="Quantile::quantile for 1..4 stored observations (symbolic values in arrival order, symbolic p in [0,1]) equals on every path the "
             "sample quantile written from the statement over the specification's own sorting network; p=0 / p=1 instances named."),
    "C11": dict(engine="K+VL", technique="Kani proof harnesses over fully symbolic valid states (loop free => complete), Verus merge-tree lemma", design="6/C11",
        text="For every Merge type: merging new() into a leaves the observable state bit-for-bit, merging a into new()/default() yields a's state bit-for-bit, "
             "len adds exactly, is_empty <=> len==0, the argument is unchanged. States are arbitrary under is_valid (proved inductive elsewhere).",
        note="Trusted: CBMC; is_valid over-approximates reachability; define_moments! N in {4,6}, histograms LEN in {1,3}; len_adds of Kurtosis/MomentsN in thorough tier (quick: C02's integer obligation)."),
    "C15": dict(engine="RS+K", technique=RS_TECH + "; Kani for new() panics-iff and bit-precise bookkeeping", design="6/C15",
        note=RS_NOTE + " One OPEN KNOWN FINDING (known_findings.json): quantile() is NaN when the spread of >= 5 finite observations overflows f64; magnitudes where f64 over/underflows are covered only by the bounded corpus extreme_magnitudes.*.",
        text="Well-formed marker state as an inductive invariant of the stage contracts of add (extremes = running min/max, ordered heights, exact count, p untouched); "
             "quantile() NaN iff empty and inside [min,max] in every phase; Quantile::new panics exactly for p outside [0,1] or NaN (Kani, all f64)."),
    "C16": dict(engine="K+RS", technique="Kani proof harnesses (sentinel table, one observation, inductive constant-stream step), bit-precise", design="6/C16",
        text="Sentinel table per type with the count fixed and other fields symbolic; one observation exact; 'n copies of x' preserved bit-exactly by add(x) for symbolic n "
             "(induction => constant streams of any length).",
        note="Trusted: CBMC IEEE-754 incl. sqrt (features=std; libm::sqrt assumed IEEE); |x|<=1e30; Quantile constant small samples under exact reals (RS); WeightedMean one-observation for 4 weights only."),
    "C17": dict(engine="K+RS", technique="Kani inductive-step harnesses for sign invariants (all f64); RS/z3 inductive range invariants under exact reals", design="6/C17",
        text="!(sum_2<0) etc. preserved by add and merge for arbitrary symbolic operands (bit-precise, no restriction on conditioning) so no variance accessor is negative; "
             "mean within [min,max], weighted mean within range, W2<=W^2<=n*W2 => effective_len in [1,len], bin variance in [0,total/4] as inductive invariants in exact reals.",
        note="Trusted: CBMC; A-REAL for the range claims (the C*n*2^-53 slack is exactly what real semantics leaves out); N in {4,6}; float-heavy harnesses in thorough tier. "
             "One OPEN KNOWN FINDING (known_findings.json): WeightedMean::merge leaves the sample range when weight*mean products under-/overflow f64 (bounded corpus weighted.extreme_weights.*)."),
    "C20": dict(engine="K+RS", technique="Kani harnesses with kani::stub recorders (order-sensitive) for the ingestion glue, inductive base/step for concatenate!, RS term identity for estimate()", design="6/C20", category="proof",
        text="estimate() = headline accessor (term identity / bit-precise), concatenate! base+step+accessors complete; collect/extend/add-loop agreement for all types "
             "with FromIterator/Extend for sequences of length <= 3 (bounded, listed separately in the evidence).",
        note="Bounded part: input length <= 3. Recorder stubs replace add in the glue harnesses. Trusted: CBMC, kani::stub."),
    "C18": dict(engine="K", category="proof", design="27",
        technique="Kani proof harnesses over the derive-generated Serialize/Deserialize code of every state struct (serde, serde_derive, serde-big-array compiled into the proof) "
                  "against a minimal lossless serde data format; structural obligations on the syn AST; bounded checkpoint corpus through the real serde_json",
        text="For every estimator type and EVERY assignment of finite 64-bit words to its state struct: serialising leaves the state unchanged, deserialising the result succeeds and "
             "returns the state word for word, with fields matched by name (self-describing formats) and by position. Word-for-word identity of the state carries every statistic and every "
             "continuation because accessors, add and merge are functions of the state words (structural obligation: forbid(unsafe_code), no statics, no interior mutability). "
             "The statement's premise 'a lossless format' is made executable as contracts/kani/serde_fmt.rs; the real serde_json/ryu are exercised only by a bounded corpus "
             "(checkpoint at every position of a 14-value stream, before/after merges), listed as bounded and never counted.",
        note="Trusted: CBMC; the token format being lossless (by construction); configurations Moments N in {4,6}, histogram LEN in {10,3}. serde_json + ryu + float parsing are NOT proved (bounded corpus only). "
             "`#![forbid(unsafe_code)]` is lifted under cfg(kani) in the scratch copy only, for the harness's raw word reads."),
    "C19": dict(engine="K+VL", category="other", design="6/C19",
        technique="Kani wiring check of impl_from_par_iterator! against an executable specification stub of rayon's fold/reduce contract (bounded), Verus merge-tree lemma; real concurrency not applicable",
        text="Bounded (<= 3 items, <= 3 contiguous chunks, both bracketings, optional identities): every item is absorbed exactly once by the fold/reduce wiring "
             "(multiset recorder stubs), Min/Max exact, for f64 and &f64 sources. Under the assumed rayon contract the unbounded statement over all chunkings is C02+C11+C14 through the Verus merge-tree lemma with empty leaves. "
             "The premises of that reduction (C02, C11, C14) are re-run by this check on the current tree and reported as C19.premise.* obligations; a failing premise is a C19 violation. "
             "Level `other`: bounded stand-in + lemma, never counted as proved.",
        note="A-RAYON (rayon's documented fold/reduce contract) is assumed and made executable in contracts/rayon_stub; threads, work stealing, thread counts and data races are NOT decided (Kani has no threads)."),
    "C14": dict(
        engine="K+VL",
        technique="Kani function contracts (proof_for_contract / stub_verified) on the real crate, full f64 domain; Verus history lemma",
        text="Function contracts on <Min as Estimate>::add and <Max as Estimate>::add proved by Kani for every f64 bit pattern "
             "(NaN, +-inf, +-0.0); merge proved modularly against add's contract (stub_verified); new/from_value/min/max/estimate "
             "contracts; semilattice laws of the contract relation; the Verus fold/merge-tree lemma lifts the per-call contracts "
             "to every history, chunking and bracketing. No bound anywhere: all harnesses are loop free.",
        note="Trusted: CBMC's IEEE-754 model and Kani's model of f64::min/max; rustc (&Self immutability); Verus. "
             "collect/extend glue is C20's subject.",
        design="6/C14"),
}

NOT_YET = {}

NA = {}


def main():
    props = [json.loads(l)["id"] for l in open(os.path.join(VERIF, "properties.jsonl"))]
    checks = []
    for pid in props:
        if pid not in CHECKS:
            continue
        c = CHECKS[pid]
        checks.append({
            "property_id": pid,
            "quick_cmd": "./check %s --tier quick" % pid,
            "thorough_cmd": "./check %s --tier thorough" % pid,
            "evidence_file": "evidence/%s.json" % pid,
            "replay_cmd_template": "./check replay {path}",
            "engine": c["engine"],
            "level_claimed": {"category": c.get("category", "proof"), "text": c["text"], "design_ref": c["design"]},
            "level_note": c["note"],
            "technique": c["technique"],
        })
    na = []
    for pid in props:
        if pid in CHECKS:
            continue
        reason = NA.get(pid) or NOT_YET.get(pid) or "check not built yet in this session (contract-based check planned in DESIGN.md section 6)"
        na.append({"property_id": pid, "reason": reason})
    m = {
        "version": 1,
        "setup_cmd": "cd tools/rsx && CARGO_NET_OFFLINE=true cargo build --release --offline",
        "hooks": {"guard": "vks_average_verif", "enable": "none needed: contracts are spliced into a scratch copy under cfg(kani) / extracted by rsx; /repo is never modified by a check",
                  "baseline_off_cmd": "cd /repo && cargo test --workspace --no-fail-fast --offline",
                  "source_commits": [], "add_only": True},
        "engines": [
            {"name": "K", "path": "lib/kani_engine.py", "kind_free_text": "Kani 0.68 / CBMC 6.11 on a scratch copy of /repo with cfg(kani) contracts and harnesses spliced in",
             "serves_properties": [p for p in CHECKS if "K" in CHECKS[p]["engine"]]},
            {"name": "RS", "path": "rs/", "kind_free_text": "own VC generator: symbolic execution of the real function bodies (syn AST via tools/rsx) under exact-real semantics; obligations discharged by sympy normal forms and z3 5.1 QF_NRA",
             "serves_properties": [p for p in CHECKS if "RS" in CHECKS[p]["engine"]]},
            {"name": "VU", "path": "lib/verus_units.py", "kind_free_text": "Verus on functions extracted mechanically from /repo on every run (contracts/verus/*.tmpl): IterBinomial::{new,next} against Pascal's rule for every n, u64 overflow as obligations",
             "serves_properties": [p for p in CHECKS if "VU" in CHECKS[p]["engine"]]},
            {"name": "VL", "path": "contracts/lemmas/history.rs", "kind_free_text": "Verus lemmas lifting per-call contracts to all histories / merge trees",
             "serves_properties": [p for p in CHECKS if "VL" in CHECKS[p]["engine"]]},
        ],
        "checks": checks,
        "not_applicable": na,
        "notes": "Exit codes: 0 held (open known findings are announced as KNOWN-FINDING lines), 1 violation (refuted obligation not listed in known_findings.json), "
                 "2 undecided (never an alarm). Seven genuine defects were repaired by `fix:` commits in /repo (C05, C06, C07, C08, C10 x2, C15) and two are recorded as open known findings "
                 "(C15 NaN when the spread of >= 5 observations overflows f64; C17 WeightedMean::merge when weight*mean products over/underflow); see known_findings.json and DESIGN.md sections 17-25. "
                 "No hook in /repo was needed. Items labelled `bounded` in the evidence are stand-ins with a stated bound and are never counted in obligations/discharged.",
    }
    with open(os.path.join(VERIF, "MANIFEST.json"), "w") as f:
        json.dump(m, f, indent=1)
    print("MANIFEST.json: %d checks, %d not_applicable" % (len(checks), len(na)))


if __name__ == "__main__":
    main()
