"""Regenerates MANIFEST.json from the table below (run by hand after adding a check)."""
import json
import os

VERIF = os.path.dirname(os.path.dirname(os.path.abspath(__file__)))

CHECKS = {
    "C14": dict(
        engine="K+VL",
        technique="Kani function contracts (proof_for_contract / stub_verified) on the real crate, full f64 domain; Verus history lemma",
        text="Function contracts on <Min as Estimate>::add and <Max as Estimate>::add proved by Kani for every f64 bit pattern "
             "(NaN, +-inf, +-0.0); merge proved modularly against add's contract (stub_verified); new/from_value/min/max/estimate "
             "contracts; semilattice laws of the contract relation; the Verus fold/merge-tree lemma lifts the per-call contracts "
             "to every history, chunking and bracketing. No bound anywhere: all harnesses are loop free.",
        note="Trusted: CBMC's IEEE-754 model and Kani's model of f64::min/max; rustc (&Self immutability); Verus. "
             "collect/extend glue is C20's subject.",
        design="6/C14"),
}

NOT_YET = {}

NA = {
    "C18": "serde round trip: the behaviour lives in serde/serde_json/ryu/derive-generated code, none of which a contract on a "
           "function of this crate can express; neither Verus nor Kani reaches that code here (DESIGN.md section 6, C18).",
}


def main():
    props = [json.loads(l)["id"] for l in open(os.path.join(VERIF, "properties.jsonl"))]
    checks = []
    for pid in props:
        if pid not in CHECKS:
            continue
        c = CHECKS[pid]
        checks.append({
            "property_id": pid,
            "quick_cmd": "./check %s --tier quick" % pid,
            "thorough_cmd": "./check %s --tier thorough" % pid,
            "evidence_file": "evidence/%s.json" % pid,
            "replay_cmd_template": "./check replay {path}",
            "engine": c["engine"],
            "level_claimed": {"category": c.get("category", "proof"), "text": c["text"], "design_ref": c["design"]},
            "level_note": c["note"],
            "technique": c["technique"],
        })
    na = []
    for pid in props:
        if pid in CHECKS:
            continue
        reason = NA.get(pid) or NOT_YET.get(pid) or "check not built yet in this session (contract-based check planned in DESIGN.md section 6)"
        na.append({"property_id": pid, "reason": reason})
    m = {
        "version": 1,
        "setup_cmd": "cd tools/rsx && CARGO_NET_OFFLINE=true cargo build --release --offline",
        "hooks": {"guard": "vks_average_verif", "enable": "none needed: contracts are spliced into a scratch copy under cfg(kani) / extracted by rsx; /repo is never modified by a check",
                  "baseline_off_cmd": "cd /repo && cargo test --workspace --no-fail-fast --offline",
                  "source_commits": [], "add_only": True},
        "engines": [
            {"name": "K", "path": "lib/kani_engine.py", "kind_free_text": "Kani 0.68 / CBMC 6.11 on a scratch copy of /repo with cfg(kani) contracts and harnesses spliced in",
             "serves_properties": [p for p in CHECKS if "K" in CHECKS[p]["engine"]]},
            {"name": "RS", "path": "rs/", "kind_free_text": "own VC generator: symbolic execution of the real function bodies (syn AST via tools/rsx) under exact-real semantics; obligations discharged by sympy normal forms and z3 5.1 QF_NRA",
             "serves_properties": [p for p in CHECKS if "RS" in CHECKS[p]["engine"]]},
            {"name": "VL", "path": "contracts/lemmas/history.rs", "kind_free_text": "Verus lemmas lifting per-call contracts to all histories / merge trees",
             "serves_properties": [p for p in CHECKS if "VL" in CHECKS[p]["engine"]]},
        ],
        "checks": checks,
        "not_applicable": na,
        "notes": "Exit codes: 0 held, 1 violation (refuted obligation), 2 undecided (never an alarm). See DESIGN.md.",
    }
    with open(os.path.join(VERIF, "MANIFEST.json"), "w") as f:
        json.dump(m, f, indent=1)
    print("MANIFEST.json: %d checks, %d not_applicable" % (len(checks), len(na)))


if __name__ == "__main__":
    main()
