"""Development tool: apply a textual mutation to /repo, run checks, revert.  usage:
   mutate.py <relfile> <old> <new> <Cxx> [Cyy ...]     (old must occur exactly once unless prefixed by N: occurrence index)"""
import subprocess, sys, os
os.environ["VERIF_EVIDENCE_DIR"] = "/tmp/verif_dev_evidence"
rel, old, new = sys.argv[1:4]
checks = sys.argv[4:]
p = os.path.join("/repo", rel)
s = open(p).read()
idx = 0
if old[:2].rstrip(":").isdigit() and old[1] == ":":
    idx = int(old[0]); old = old[2:]
parts = s.split(old)
if len(parts) - 1 <= idx:
    print("pattern occurs %d times" % (len(parts) - 1)); sys.exit(2)
s2 = old.join(parts[:idx + 1]) + new + old.join(parts[idx + 1:])
open(p, "w").write(s2)
try:
    r = subprocess.run(["cargo", "build", "--offline", "--quiet"], cwd="/repo", stdout=subprocess.PIPE, stderr=subprocess.STDOUT, text=True)
    if r.returncode != 0:
        print("MUTANT DOES NOT COMPILE"); print(r.stdout[-500:])
    else:
        if os.environ.get("MUT_TESTS"):
            t = subprocess.run(["cargo", "test", "--offline", "--quiet"], cwd="/repo", stdout=subprocess.PIPE, stderr=subprocess.STDOUT, text=True)
            print("baseline tests:", "PASS" if t.returncode == 0 else "FAIL")
        for c in checks:
            r = subprocess.run(["/verif/check", c], stdout=subprocess.PIPE, stderr=subprocess.STDOUT, text=True)
            lines = [l for l in r.stdout.split("\n") if l.startswith(("VIOLATION", "UNDECIDED", "KNOWN", c))]
            print("%s rc=%d" % (c, r.returncode)); print("\n".join(l[:230] for l in lines[:6]))
finally:
    subprocess.run(["git", "-C", "/repo", "checkout", "--", "."])
