"""Development tool: validate a seeded change and run checks against it.
usage: seedtest.py <seed_dir> <seed_id> <Cxx> [Cyy..]   (seed_dir has patch.diff, demo.rs, meta.json)
Applies the patch to /repo (never committed), runs baseline + demo + checks, always reverts."""
import json, os, shutil, subprocess, sys, time
os.environ["VERIF_EVIDENCE_DIR"] = "/tmp/verif_dev_evidence"

seed_dir, seed_id = sys.argv[1], sys.argv[2]
checks = sys.argv[3:]
REPO = "/repo"
env = dict(os.environ, CARGO_NET_OFFLINE="true")


def sh(cmd, cwd=REPO, timeout=3600):
    p = subprocess.run(cmd, cwd=cwd, env=env, stdout=subprocess.PIPE, stderr=subprocess.STDOUT, text=True, timeout=timeout)
    return p.returncode, p.stdout


FEATURES = []
TOOLCHAIN = []
try:
    _m = json.load(open(os.path.join(seed_dir, "meta.json")))
    if _m.get("features"):
        FEATURES = ["--features", _m["features"]]
    if _m.get("toolchain"):
        TOOLCHAIN = ["+" + _m["toolchain"]]       # e.g. the const-generic histogram needs cargo +nightly --features nightly
except Exception:
    pass


def demo(label):
    shutil.copy(os.path.join(seed_dir, "demo.rs"), os.path.join(REPO, "tests", "zz_seed_demo.rs"))
    try:
        rc, out = sh(["cargo"] + TOOLCHAIN + ["test", "--offline", "--test", "zz_seed_demo"] + FEATURES)
    finally:
        os.remove(os.path.join(REPO, "tests", "zz_seed_demo.rs"))
    tail = [l for l in out.split("\n") if l.startswith("test result") or "error" in l.lower()][:3]
    print("demo on %s tree: rc=%d %s" % (label, rc, tail))
    return rc


res = {"seed": seed_id, "checks": {}}
assert sh(["git", "status", "--porcelain"])[1].strip() == "", "/repo not clean"
res["demo_clean_rc"] = demo("clean")
rc, out = sh(["git", "apply", os.path.join(seed_dir, "patch.diff")])
if rc != 0:
    print("patch does not apply:", out); sys.exit(2)
try:
    rc, out = sh(["cargo", "test", "--workspace", "--no-fail-fast", "--offline"])
    res["baseline_with_patch_rc"] = rc
    print("baseline with patch: rc=%d" % rc, [l for l in out.split("\n") if l.startswith("test result")])
    res["demo_patched_rc"] = demo("patched")
    for c in checks:
        t0 = time.time()
        r = subprocess.run(["/verif/check", c], stdout=subprocess.PIPE, stderr=subprocess.STDOUT, text=True)
        lines = [l for l in r.stdout.split("\n") if l.startswith(("VIOLATION", "UNDECIDED", "KNOWN", c + " tier"))]
        res["checks"][c] = {"rc": r.returncode, "violations": [l for l in lines if l.startswith("VIOLATION")][:8], "secs": round(time.time() - t0, 1)}
        print("%s rc=%d (%.0fs)" % (c, r.returncode, time.time() - t0))
        print("\n".join(l[:220] for l in lines[:8]))
finally:
    sh(["git", "checkout", "--", "."])
    sh(["git", "clean", "-fdq", "tests/"])
valid = res["demo_clean_rc"] == 0 and res.get("baseline_with_patch_rc") == 0 and res.get("demo_patched_rc") not in (0, None)
res["valid_seed"] = valid
res["detected_by"] = [c for c, v in res["checks"].items() if v["rc"] == 1]
print("VALID SEED:", valid, " DETECTED BY:", res["detected_by"])
out_dir = os.path.join("/verif/seeded", seed_id)
if valid:
    os.makedirs(out_dir, exist_ok=True)
    for f in ("patch.diff", "demo.rs"):
        shutil.copy(os.path.join(seed_dir, f), os.path.join(out_dir, f))
    meta = {}
    try:
        meta = json.load(open(os.path.join(seed_dir, "meta.json")))
    except Exception:
        pass
    meta["confirmed_by_builder"] = {"demo_passes_on_clean_tree": True, "baseline_suite_passes_with_patch": True, "demo_fails_with_patch": True,
                                    "ran": ["git -C /repo apply patch.diff", "cargo test --workspace --offline", "cargo test --offline --test zz_seed_demo",
                                            "./check " + " ".join(checks), "git -C /repo checkout -- ."]}
    meta["check_results"] = res["checks"]
    meta["detected_by"] = res["detected_by"]
    json.dump(meta, open(os.path.join(out_dir, "meta.json"), "w"), indent=1)
