"""Engine VL: Verus history lemmas (code independent), always run under timeout."""
import json
import os
import re
import time

from common import DISCHARGED, UNDECIDED, Obligation, VERIF, run

LEMMA_FILE = os.path.join(VERIF, "contracts", "lemmas", "history.rs")
_cache = {}


def _verify():
    if "res" in _cache:
        return _cache["res"]
    if not os.path.exists(LEMMA_FILE):
        _cache["res"] = (None, "missing " + LEMMA_FILE, 0.0, {})
        return _cache["res"]
    rc, out, secs = run(["verus", LEMMA_FILE, "--output-json", "--time"], 300,
                        cwd="/tmp")
    info = {}
    try:
        j = json.loads(out[out.index("{"):])
        info = j
    except Exception:
        pass
    _cache["res"] = (rc, out, secs, info)
    return _cache["res"]


def lemma_names():
    src = open(LEMMA_FILE).read()
    return re.findall(r"proof fn (lemma_\w+)", src)


TRUST_TOKENS = ("assume(", "admit(", "external_body", "assume_specification", "#[verifier::external", "#[verifier(external")
USED = []


def trusted_tokens():
    """Mechanical scan of the lemma file for anything Verus would take on trust."""
    hits = []
    if os.path.exists(LEMMA_FILE):
        for k, line in enumerate(open(LEMMA_FILE).read().split("\n")):
            code = line.split("//")[0]
            for t in TRUST_TOKENS:
                if t in code:
                    hits.append("%s:%d: %s" % (os.path.basename(LEMMA_FILE), k + 1, code.strip()[:100]))
    return hits


def run_lemmas(prop, groups):
    """One obligation per lemma whose name contains one of `groups` (e.g. 'fold', 'tree', 'semilattice')."""
    rc, out, secs, info = _verify()
    USED.append(LEMMA_FILE)
    trusted = trusted_tokens()
    if trusted:
        # an assumption entered the lemma file: nothing in it counts as proved until it is accounted for
        return [Obligation("%s.VL.lemmas" % prop, "contracts/lemmas/history.rs", "verus", UNDECIDED, secs,
                           "trusted constructs in the lemma file: " + "; ".join(trusted[:5]), kind="lemma")]
    names = [n for n in (lemma_names() if os.path.exists(LEMMA_FILE) else []) if any(g in n for g in groups)]
    obs = []
    vr = info.get("verification-results", {}) if isinstance(info, dict) else {}
    ok = (rc == 0 and vr.get("success") is True and vr.get("errors", 1) == 0 and vr.get("verified", 0) > 0)
    if not names:
        obs.append(Obligation("%s.VL.lemmas" % prop, "contracts/lemmas/history.rs", "verus", UNDECIDED, secs,
                              "no lemma matches %s" % groups, kind="lemma"))
        return obs
    per = secs / max(1, len(names))
    for n in names:
        obs.append(Obligation("%s.VL.%s" % (prop, n), "contracts/lemmas/history.rs::" + n, "verus",
                              DISCHARGED if ok else UNDECIDED, per,
                              ("verus: %s verified, %s errors" % (vr.get("verified"), vr.get("errors"))) if vr else
                              ("verus rc=%s: %s" % (rc, out[-600:])), kind="lemma",
                              text="verus contracts/lemmas/history.rs :: " + n))
    return obs
