"""Development tool: false-alarm hunting.  Applies a behaviour-preserving refactoring to /repo (never committed), runs
the baseline suite and the given checks, and always reverts.  A check must exit 0 (held) or 2 (undecided) - never 1.
usage: benigntest.py <patch.diff> <label> <Cxx> [Cyy..]
Appends one JSON line per run to /tmp/verif_dev_evidence/benign.jsonl"""
import json, os, subprocess, sys, time
os.environ["VERIF_EVIDENCE_DIR"] = "/tmp/verif_dev_evidence"
os.makedirs("/tmp/verif_dev_evidence", exist_ok=True)

patch, label = sys.argv[1], sys.argv[2]
checks = sys.argv[3:]
REPO = "/repo"
env = dict(os.environ, CARGO_NET_OFFLINE="true")


def sh(cmd, cwd=REPO, timeout=3600):
    p = subprocess.run(cmd, cwd=cwd, env=env, stdout=subprocess.PIPE, stderr=subprocess.STDOUT, text=True, timeout=timeout)
    return p.returncode, p.stdout


assert sh(["git", "status", "--porcelain"])[1].strip() == "", "/repo not clean"
rc, out = sh(["git", "apply", patch])
if rc != 0:
    print("patch does not apply:", out); sys.exit(2)
res = {"label": label, "patch": patch, "checks": {}}
try:
    rc, out = sh(["cargo", "test", "--workspace", "--no-fail-fast", "--offline"])
    res["baseline_rc"] = rc
    print("baseline with patch: rc=%d" % rc)
    for c in checks:
        t0 = time.time()
        r = subprocess.run(["/verif/check", c], stdout=subprocess.PIPE, stderr=subprocess.STDOUT, text=True)
        lines = [l for l in r.stdout.split("\n") if l.startswith(("VIOLATION", "UNDECIDED", "KNOWN"))]
        res["checks"][c] = {"rc": r.returncode, "lines": [l[:300] for l in lines][:8], "secs": round(time.time() - t0, 1)}
        print("%s rc=%d (%.0fs)" % (c, r.returncode, time.time() - t0))
        print("\n".join(l[:300] for l in lines[:8]))
finally:
    sh(["git", "checkout", "--", "."])
res["false_alarms"] = [c for c, v in res["checks"].items() if v["rc"] == 1]
res["undecided"] = [c for c, v in res["checks"].items() if v["rc"] == 2]
print("FALSE ALARMS:", res["false_alarms"], " UNDECIDED:", res["undecided"])
with open("/tmp/verif_dev_evidence/benign.jsonl", "a") as f:
    f.write(json.dumps(res) + "\n")
