"""Known-answer guard for the A-REAL assumption (DESIGN.md section 5): a small corpus of ill-conditioned
samples is executed on the real crate and compared with exact rational statistics under the forward-error
envelope  |got - exact| <= C * n * kappa * 2^-53 * scale.   BOUNDED (a finite corpus), never counted as proof:
it exists to catch rewrites that are equal over the reals but numerically unstable (which the RS contracts
cannot see), and to show the real-semantics assumption is not vacuous for this code."""
import math
from fractions import Fraction

import oracle
import replay
from common import Obligation, DISCHARGED, REFUTED, UNDECIDED

U = 2.0 ** -53

BASES = [
    [4.0, 7.0, 13.0, 16.0],
    [1.0, 2.0, 3.0, 4.0, 10.0],
    [-10.0, -4.0, -3.0, -2.0, -1.0],
    [0.5, 0.25, 0.75, 0.125, 0.875, 0.5, 0.375],
    [float((37 * i) % 101) / 8.0 for i in range(60)],
    [1.0, 2.0] * 20 + [5.0],
]
OFFSETS = [0.0, 1e6, 1e9, 1e12]


def datasets():
    out = []
    for b in BASES:
        for off in OFFSETS:
            out.append([x + off for x in b])
    return out


def _stats(xs):
    fx = [Fraction(x) for x in xs]
    n = len(fx)
    mu = sum(fx) / n
    m = {p: sum((x - mu) ** p for x in fx) / n for p in range(2, 11)}
    am = {p: sum(abs(x - mu) ** p for x in fx) / n for p in range(2, 11)}
    sd = math.sqrt(float(m[2]))
    kappa = 1.0 + max(abs(float(x)) for x in fx) / sd
    return fx, n, mu, m, am, sd, kappa


def moment_expectations(xs, accessors):
    """{key: (exact float, tolerance)} for the accessors of the moment family."""
    fx, n, mu, m, am, sd, kappa = _stats(xs)
    nk = n * kappa * U
    out = {}
    for a in accessors:
        key = a if isinstance(a, str) else "%s(%s)" % (a[0], a[1])
        name = key.split("(")[0]
        if name == "mean":
            out[key] = (float(mu), 4 * nk * sd)
        elif name == "population_variance":
            out[key] = (float(m[2]), 16 * nk * float(m[2]))
        elif name == "sample_variance":
            v = float(m[2]) * n / (n - 1)
            out[key] = (v, 16 * nk * v)
        elif name == "variance_of_mean":
            v = float(m[2]) / (n - 1)
            out[key] = (v, 16 * nk * v)
        elif name in ("error", "error_mean"):
            v = math.sqrt(float(m[2]) / (n - 1))
            out[key] = (v, 16 * nk * v)
        elif name == "skewness":
            s = float(m[3]) / float(m[2]) ** 1.5
            out[key] = (s, 64 * nk * max(1.0, abs(s)))
        elif name == "kurtosis":
            k = float(m[4]) / float(m[2]) ** 2 - 3
            out[key] = (k, 128 * nk * max(1.0, abs(k + 3)))
        elif name == "central_moment":
            p = int(a[1])
            if p >= 2:
                out[key] = (float(m[p]), 8 * p * 2 ** p * nk * float(am[p]))
        elif name == "standardized_moment":
            p = int(a[1])
            if p >= 3:
                out[key] = (float(m[p]) / sd ** p, 16 * p * 2 ** p * nk * float(am[p]) / sd ** p)
        elif name == "sample_skewness" and n >= 3:
            s = math.sqrt(n * (n - 1)) / (n - 2) * float(m[3]) / float(m[2]) ** 1.5
            out[key] = (s, 64 * nk * max(1.0, abs(s)) * 2)
        elif name == "sample_excess_kurtosis" and n >= 4:
            g2 = float(m[4]) / float(m[2]) ** 2 - 3
            k = (n - 1) / ((n - 2) * (n - 3)) * ((n + 1) * g2 + 6)
            out[key] = (k, 128 * nk * max(1.0, abs(g2 + 3)) * (n + 1))
    return out


def guard_moments(prop, ty, accessors, function, with_merge=False):
    """One bounded obligation: every dataset x ingestion shape within the envelope."""
    progs, exps = [], []
    for xs in datasets():
        shapes = [("add", {"type": ty, "ctor": ["new"], "ops": [["add", x] for x in xs], "observe": accessors})]
        if with_merge:
            n = len(xs)
            for cut in sorted({1, n // 2, n - 1}):
                shapes.append(("merge@%d" % cut, {"type": ty, "ctor": ["new"], "ops": [["add", x] for x in xs[:cut]] + [
                    ["merge", {"type": ty, "ctor": ["new"], "ops": [["add", x] for x in xs[cut:]]}]], "observe": accessors}))
            # unbalanced left fold of one-element chunks over the first elements
            ops = []
            for x in xs[:12]:
                ops.append(["merge", {"type": ty, "ctor": ["new"], "ops": [["add", x]]}])
            shapes.append(("fold1", {"type": ty, "ctor": ["new"], "ops": ops, "observe": accessors, "_data": xs[:12]}))
        for label, pg in shapes:
            progs.append(pg)
            exps.append((label, moment_expectations(pg.get("_data", xs), accessors)))
    name = "%s.%s.envelope_guard%s" % (prop, ty, ".merge" if with_merge else "")
    bound = "known-answer corpus: %d datasets (offsets up to 1e12 x spread, n <= 60) x %d programs; envelope of DESIGN.md section 5" % (
        len(datasets()), len(progs))
    results = replay.run_programs(progs, timeout=900)
    worst = 0.0
    for pg, res, (label, exp) in zip(progs, results, exps):
        if res.get("error"):
            return [Obligation(name, function, "replay+fractions", UNDECIDED, 0.0, "replay failed: %s" % res["error"], bounded=bound, kind="bounded")]
        if res["panic"]:
            return [Obligation(name, function, "replay+fractions", REFUTED, 0.0, "panic: " + res["panic"],
                               cex={"class": {"envelope": True}, "program": pg}, bounded=bound, kind="bounded")]
        for key, (e, tol) in exp.items():
            a = res["obs"].get(key)
            if a is None:
                continue
            err = abs(a - e) if a == a else float("inf")
            slack = tol + 4 * U * abs(e)      # the exact value itself is rounded once when converted to f64
            if slack > 0:
                worst = max(worst, err / slack)
            if err > slack:
                pg2 = {k: v for k, v in pg.items() if not k.startswith("_")}
                return [Obligation(name, function, "replay+fractions", REFUTED, 0.0,
                                   "%s [%s]: got %r, exact %r, |error| %.3e > envelope %.3e" % (key, label, a, e, err, slack),
                                   cex={"class": {"envelope": True}, "program": pg2, "statistic": key, "expected": repr(e), "actual": repr(a)},
                                   bounded=bound, kind="bounded")]
    return [Obligation(name, function, "replay+fractions", DISCHARGED, 0.0,
                       "all inside the envelope; worst error/envelope ratio %.3g" % worst, bounded=bound, kind="bounded",
                       text="forward-error envelope on %d programs" % len(progs))]


def confirm_from_cex(ob):
    c = ob.cex or {}
    if c.get("program"):
        return {"program": c["program"], "expected": {c.get("statistic", "?"): c.get("expected")},
                "actual": {c.get("statistic", "?"): c.get("actual")}, "confirmed_on_real_code": True,
                "note": "envelope guard: executed on the real crate"}
    return None


def _check(name, function, bound, progs, exps, results):
    worst = 0.0
    for pg, res, exp in zip(progs, results, exps):
        if res.get("error"):
            return [Obligation(name, function, "replay+fractions", UNDECIDED, 0.0, "replay failed: %s" % res["error"], bounded=bound, kind="bounded")]
        if res["panic"]:
            return [Obligation(name, function, "replay+fractions", REFUTED, 0.0, "panic: " + res["panic"],
                               cex={"class": {"envelope": True}, "program": pg}, bounded=bound, kind="bounded")]
        for key, (e, tol) in exp.items():
            a = res["obs"].get(key)
            if a is None:
                continue
            err = abs(a - e) if a == a else float("inf")
            slack = tol + 4 * U * abs(e)
            if slack > 0:
                worst = max(worst, err / slack)
            if err > slack:
                return [Obligation(name, function, "replay+fractions", REFUTED, 0.0,
                                   "%s: got %r, exact %r, |error| %.3e > envelope %.3e" % (key, a, e, err, slack),
                                   cex={"class": {"envelope": True}, "program": pg, "statistic": key, "expected": repr(e), "actual": repr(a)},
                                   bounded=bound, kind="bounded")]
    return [Obligation(name, function, "replay+fractions", DISCHARGED, 0.0,
                       "all inside the envelope; worst error/envelope ratio %.3g" % worst, bounded=bound, kind="bounded",
                       text="forward-error envelope on %d programs" % len(progs))]


def guard_covariance(prop):
    """Covariance on pairs with independent large offsets on x and y, add-only and merged."""
    accs = ["mean_x", "mean_y", "population_variance_x", "population_variance_y", "sample_variance_x", "sample_variance_y",
            "population_covariance", "sample_covariance", "pearson"]
    base = [[(1.0, 2.0), (2.0, 5.0), (4.0, 3.0), (8.0, 9.0), (3.0, 1.0)],
            [(float(i), float((7 * i) % 11) - 0.5 * i) for i in range(30)],
            [(-1.0, 5.0), (0.5, 2.0), (3.0, -2.0), (7.0, -1.0), (2.0, 2.0), (2.5, 0.0)]]
    progs, exps = [], []
    for b in base:
        for ox, oy in ((0.0, 0.0), (1e9, 0.0), (1e6, -1e9), (1e12, 1e12)):
            pts = [(x + ox, y + oy) for x, y in b]
            fx = [(Fraction(x), Fraction(y)) for x, y in pts]
            n = len(fx)
            mx = sum(a for a, _ in fx) / n
            my = sum(c for _, c in fx) / n
            cxx = sum((a - mx) ** 2 for a, _ in fx)
            cyy = sum((c - my) ** 2 for _, c in fx)
            cxy = sum((a - mx) * (c - my) for a, c in fx)
            sdx, sdy = math.sqrt(float(cxx / n)), math.sqrt(float(cyy / n))
            kap = 1.0 + max(max(abs(float(a)) for a, _ in fx) / sdx, max(abs(float(c)) for _, c in fx) / sdy)
            nk = n * kap * U
            sc = math.sqrt(float(cxx) * float(cyy))
            exp = {"mean_x": (float(mx), 4 * nk * sdx), "mean_y": (float(my), 4 * nk * sdy),
                   "population_variance_x": (float(cxx / n), 16 * nk * float(cxx / n)), "population_variance_y": (float(cyy / n), 16 * nk * float(cyy / n)),
                   "sample_variance_x": (float(cxx / (n - 1)), 16 * nk * float(cxx / (n - 1))), "sample_variance_y": (float(cyy / (n - 1)), 16 * nk * float(cyy / (n - 1))),
                   "population_covariance": (float(cxy / n), 32 * nk * sc / n), "sample_covariance": (float(cxy / (n - 1)), 32 * nk * sc / (n - 1)),
                   "pearson": (float(cxy) / sc, 32 * nk)}
            progs.append({"type": "Covariance", "ctor": ["new"], "ops": [["add2", x, y] for x, y in pts], "observe": accs})
            exps.append(exp)
            for cut in sorted({1, n // 2, n - 1}):
                progs.append({"type": "Covariance", "ctor": ["new"], "ops": [["add2", x, y] for x, y in pts[:cut]] + [
                    ["merge", {"type": "Covariance", "ctor": ["new"], "ops": [["add2", x, y] for x, y in pts[cut:]]}]], "observe": accs})
                exps.append(exp)
    bound = "known-answer corpus: %d programs, independent offsets up to 1e12 on x and y; envelope of DESIGN.md section 5" % len(progs)
    return _check("%s.Covariance.envelope_guard" % prop, "src/covariance.rs::Covariance (add-only and two-chunk merges)", bound, progs, exps,
                  replay.run_programs(progs, timeout=900))


def guard_weighted(prop):
    """WeightedMeanWithError with weights in {0} U [1e-6, 1e6] and offset samples."""
    accs = ["weighted_mean", "sum_weights", "sum_weights_sq", "effective_len", "unweighted_mean", "population_variance", "sample_variance",
            "variance_of_weighted_mean", "error"]
    base = [[(1.0, 2.0), (2.0, 0.0), (4.0, 3.0), (8.0, 1e-6), (3.0, 1e6), (5.0, 1.5)],
            [(float(i % 7), 0.25 + (i % 5)) for i in range(40)],
            [(0.5, 0.0), (1.5, 0.0), (2.5, 1.0), (3.5, 2.0)]]
    progs, exps = [], []
    for b in base:
        for off in (0.0, 1e6, 1e9):
            pts = [(x + off, w) for x, w in b]
            fx = [(Fraction(x), Fraction(w)) for x, w in pts]
            n = len(fx)
            W = sum(w for _, w in fx)
            W2 = sum(w * w for _, w in fx)
            WX = sum(w * x for x, w in fx)
            mu = sum(x for x, _ in fx) / n
            m2 = sum((x - mu) ** 2 for x, _ in fx) / n
            sd = math.sqrt(float(m2))
            mxx = max(abs(float(x)) for x, _ in fx)
            kap = 1.0 + mxx / sd
            nk = n * kap * U
            sv = float(m2) * n / (n - 1)
            vwm = sv * float(W2) / float(W) ** 2
            exp = {"weighted_mean": (float(WX / W), 8 * n * U * mxx), "sum_weights": (float(W), 8 * n * U * float(W)),
                   "sum_weights_sq": (float(W2), 8 * n * U * float(W2)), "effective_len": (float(W * W / W2), 8 * n * U * float(W * W / W2) * 3),
                   "unweighted_mean": (float(mu), 4 * nk * sd), "population_variance": (float(m2), 16 * nk * float(m2)),
                   "sample_variance": (sv, 16 * nk * sv), "variance_of_weighted_mean": (vwm, 32 * nk * vwm), "error": (math.sqrt(vwm), 32 * nk * math.sqrt(vwm))}
            progs.append({"type": "WeightedMeanWithError", "ctor": ["new"], "ops": [["add2", x, w] for x, w in pts], "observe": accs})
            exps.append(exp)
            for cut in sorted({1, n // 2, n - 1}):
                progs.append({"type": "WeightedMeanWithError", "ctor": ["new"], "ops": [["add2", x, w] for x, w in pts[:cut]] + [
                    ["merge", {"type": "WeightedMeanWithError", "ctor": ["new"], "ops": [["add2", x, w] for x, w in pts[cut:]]}]], "observe": accs})
                exps.append(exp)
    bound = "known-answer corpus: %d programs, weights in {0} U [1e-6, 1e6], sample offsets up to 1e9; envelope of DESIGN.md section 5" % len(progs)
    return _check("%s.WeightedMeanWithError.envelope_guard" % prop, "src/weighted_mean.rs::WeightedMeanWithError (add-only and two-chunk merges)",
                  bound, progs, exps, replay.run_programs(progs, timeout=900))
